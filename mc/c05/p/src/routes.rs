//! Route drivers, generic over the boundary type `T: B`.
//!
//! r1  Rust -> script argument at position p = 1..7 of a 7-parameter function,
//!     returned back; the six other parameters are fillers of other size
//!     classes whose arrival is checked through host sinks
//! r2  script-constructed value (literal expression) returned to Rust
//! r3  script -> host argument at position p = 1..7 of a 7-parameter host
//!     function (the other six are literal fillers)
//! r4  host -> script return (`src(k)`), handed on to Rust
//! r5  registered constant read
//! r7  enum constructed in the script from a payload / matched in the script

use std::any::{Any, TypeId};
use std::cell::RefCell;
use std::collections::HashMap;
use std::marker::PhantomData;
use std::net::{IpAddr, Ipv4Addr, Ipv6Addr};
use std::rc::Rc;

use roto::{Constant, Function, Item, List, NoCtx, Package, Runtime, location};
use vcore::{Cx, SUB_SETUP, Tier, Value, json};

use crate::ty::B;

pub const R1: u64 = 1;
pub const R2: u64 = 2;
pub const R3: u64 = 3;
pub const R4: u64 = 4;
pub const R5: u64 = 5;
pub const R7: u64 = 7;

pub fn sub(route: u64, pos: u64, idx: usize) -> u64 {
    (route << 44) | (pos << 36) | idx as u64
}
pub fn unsub(s: u64) -> (u64, u64, usize) {
    (s >> 44, (s >> 36) & 0xff, (s & ((1 << 36) - 1)) as usize)
}

/// A unit in which this many cases have already killed a worker is given up
/// (every death costs a process, a re-run of the unit and, for a hang, the
/// watchdog time): the violations found so far decide the verdict, the
/// abandonment itself is a machinery error ("not exhaustive").
pub const MAX_DEATHS_PER_UNIT: usize = 8;

pub fn abandoned(cx: &mut Cx) -> bool {
    if cx.skipped_cases().len() >= MAX_DEATHS_PER_UNIT {
        cx.count("units_abandoned", 1);
        cx.note(format!("unit {} abandoned after {} worker deaths", cx.unit, cx.skipped_cases().len()));
        return true;
    }
    false
}

// ------------------------------------------------------------------ log / cache

thread_local! {
    static LOG: RefCell<Vec<String>> = const { RefCell::new(Vec::new()) };
    static CACHE: RefCell<HashMap<(TypeId, bool), Rc<dyn Any>>> = RefCell::new(HashMap::new());
    static TIER: RefCell<Tier> = const { RefCell::new(Tier::Quick) };
}

/// A value read from the wrong place can render as arbitrary bytes (e.g. a
/// `bool` holding 7, a string with a bogus length). Everything that goes into
/// the result line must be valid UTF-8, otherwise the parent's reader thread
/// takes the line for end-of-file.
pub fn clean(s: String) -> String {
    match String::from_utf8(s.into_bytes()) {
        Ok(s) => s,
        Err(e) => String::from_utf8_lossy(e.as_bytes()).into_owned(),
    }
}

/// What arrives through a broken route is often memory garbage that differs
/// from run to run. The OBSERVED part of a violation must be deterministic
/// (a replay compares it between two runs), so it only says up to where the
/// arrived rendering agrees with the sent one, cut back to an element
/// boundary; the raw rendering of this run is stored in the case
/// (`arrived_this_run`).
pub fn agree_prefix(want: &str, got: &str) -> String {
    let n = want.bytes().zip(got.bytes()).take_while(|(a, b)| a == b).count();
    let mut n = n.min(want.len());
    while !want.is_char_boundary(n) {
        n -= 1;
    }
    if n == want.len() && n == got.len() {
        return want.to_string();
    }
    let p = &want[..n];
    match p.rfind(", ") {
        Some(k) => p[..k].to_string(),
        None => match p.find(['(', '[']) {
            Some(k) => p[..=k].to_string(),
            None => String::new(),
        },
    }
}

pub fn agree_list(want: &[String], got: &[String]) -> Vec<bool> {
    (0..want.len().max(got.len())).map(|i| want.get(i).is_some() && want.get(i) == got.get(i)).collect()
}

pub fn log(s: String) {
    let s = clean(s);
    LOG.with(|l| l.borrow_mut().push(s));
}
pub fn take_log() -> Vec<String> {
    LOG.with(|l| std::mem::take(&mut *l.borrow_mut()))
}
pub fn set_tier(t: Tier) {
    TIER.with(|x| *x.borrow_mut() = t);
}
pub fn tier() -> Tier {
    TIER.with(|x| *x.borrow())
}

/// the edge list of `T`, built once per worker
pub fn edges<T: B>(t: Tier) -> Rc<Vec<T>> {
    let key = (TypeId::of::<T>(), t == Tier::Thorough);
    if let Some(e) = CACHE.with(|c| c.borrow().get(&key).cloned()) {
        return e.downcast::<Vec<T>>().expect("cache type");
    }
    let e: Rc<Vec<T>> = Rc::new(T::edges(t));
    CACHE.with(|c| c.borrow_mut().insert(key, e.clone() as Rc<dyn Any>));
    e
}

// ------------------------------------------------------------------ fillers

/// parameter types of the 7-parameter functions; position p holds T instead
pub const FILL_ROTO: [&str; 7] = ["u8", "()", "u64", "i16", "u32", "IpAddr", "f64"];
pub const FILL_ID: [&str; 7] = ["u8", "unit", "u64", "i16", "u32", "IpAddr", "f64"];
/// literal fillers of the script -> host calls (r3)
pub const FILL_LIT: [&str; 7] = ["17", "()", "1311768467463790320", "-2", "70000", "1.2.3.4", "2.5"];

pub struct Fill {
    pub a: u8,
    pub c: u64,
    pub d: i16,
    pub e: u32,
    pub f: IpAddr,
    pub g: f64,
}

pub fn fill(idx: usize, p: u64) -> Fill {
    let k = (idx as u64).wrapping_mul(0x9E3779B97F4A7C15).wrapping_add(p.wrapping_mul(0x0101010101010101));
    let f = if idx % 2 == 0 {
        IpAddr::V4(Ipv4Addr::from((k >> 16) as u32))
    } else {
        IpAddr::V6(Ipv6Addr::from(((k as u128) << 64) | (!k) as u128))
    };
    Fill {
        a: (k >> 56) as u8 ^ idx as u8,
        c: k,
        d: (k >> 24) as i16,
        e: (k >> 8) as u32,
        f,
        g: f64::from_bits(0x4000_0000_0000_0000 | (k >> 12)),
    }
}

impl Fill {
    pub fn shows(&self) -> [String; 7] {
        [self.a.show(), ().show(), self.c.show(), self.d.show(), self.e.show(), self.f.show(), self.g.show()]
    }
    pub fn lit() -> Fill {
        Fill {
            a: 17,
            c: 1311768467463790320,
            d: -2,
            e: 70000,
            f: IpAddr::V4(Ipv4Addr::new(1, 2, 3, 4)),
            g: 2.5,
        }
    }
}

/// expected sink log: the fillers in order, position p left out (r1) or
/// replaced by the value (r3)
fn expect_log(f: &Fill, p: u64, at_p: Option<String>) -> Vec<String> {
    let mut v: Vec<String> = vec![];
    for (i, s) in f.shows().into_iter().enumerate() {
        if i as u64 + 1 == p {
            if let Some(x) = &at_p {
                v.push(x.clone());
            }
        } else {
            v.push(s);
        }
    }
    v
}

// ------------------------------------------------------------------ scripts

pub fn script_r1(roto: &str, p: u64) -> String {
    let mut params = vec![];
    let mut body = String::new();
    for i in 1..=7u64 {
        if i == p {
            params.push(format!("a{i}: {roto}"));
        } else {
            params.push(format!("a{i}: {}", FILL_ROTO[i as usize - 1]));
            body += &format!("    snk_{}(a{i});\n", FILL_ID[i as usize - 1]);
        }
    }
    format!("fn r1_{p}({}) -> {roto} {{\n{body}    a{p}\n}}\n", params.join(", "))
}

pub fn script_r3(roto: &str, p: u64) -> String {
    let args: Vec<String> =
        (1..=7u64).map(|i| if i == p { "x".to_string() } else { FILL_LIT[i as usize - 1].to_string() }).collect();
    format!("fn r3_{p}(x: {roto}) {{\n    h3_{p}({});\n}}\n", args.join(", "))
}

pub fn script_r4(roto: &str) -> String {
    format!("fn r4(k: u32) -> {roto} {{\n    src(k)\n}}\n")
}

pub fn script_r2(roto: &str, i: usize, lit: &Option<String>) -> Option<String> {
    Some(format!("fn r2_{i}() -> {roto} {{\n    {}\n}}\n", lit.as_ref()?))
}

pub fn script_r5(roto: &str, i: usize) -> String {
    format!("fn r5_{i}() -> {roto} {{\n    C5_{i}\n}}\n")
}

pub fn script_g1(roto: &str) -> String {
    (1..=7).map(|p| script_r1(roto, p)).collect::<Vec<_>>().join("\n")
}

pub fn script_g3(roto: &str) -> String {
    let mut s: String = (1..=7).map(|p| script_r3(roto, p)).collect::<Vec<_>>().join("\n");
    s += "\n";
    s += &script_r4(roto);
    s
}

/// r2/r5 always use the quick edge list: one script function / one registered
/// constant per value
pub fn script_g2(roto: &str, lits: &[Option<String>]) -> String {
    let mut s = String::new();
    for (i, l) in lits.iter().enumerate() {
        if let Some(f) = script_r2(roto, i, l) {
            s += &f;
        }
        s += &script_r5(roto, i);
    }
    s
}

// ------------------------------------------------------------------ registration

pub fn reg_sink<F: B>(items: &mut Vec<Item>) {
    let f = Function::new(format!("snk_{}", F::id()), "", vec!["x"], |x: F| log(x.show()), location!())
        .expect("register sink");
    items.push(f.into());
}

fn filler_sinks() -> Vec<Item> {
    let mut v = vec![];
    reg_sink::<u8>(&mut v);
    reg_sink::<()>(&mut v);
    reg_sink::<u64>(&mut v);
    reg_sink::<i16>(&mut v);
    reg_sink::<u32>(&mut v);
    reg_sink::<IpAddr>(&mut v);
    reg_sink::<f64>(&mut v);
    v
}

fn log7(v: [String; 7]) {
    LOG.with(|l| l.borrow_mut().extend(v.into_iter().map(clean)));
}

fn push_fn(items: &mut Vec<Item>, f: Result<Function, roto::RegistrationError>) {
    items.push(f.expect("register host function").into());
}

const P7: [&str; 7] = ["a1", "a2", "a3", "a4", "a5", "a6", "a7"];

fn reg_r3<T: B>(items: &mut Vec<Item>) {
    macro_rules! h3 {
        ($name:literal, ($($a:ident : $t:ty),*)) => {
            push_fn(items, Function::new($name, "", P7.to_vec(), |$($a: $t),*| log7([$($a.show()),*]), location!()))
        };
    }
    h3!("h3_1", (a1: T, a2: (), a3: u64, a4: i16, a5: u32, a6: IpAddr, a7: f64));
    h3!("h3_2", (a1: u8, a2: T, a3: u64, a4: i16, a5: u32, a6: IpAddr, a7: f64));
    h3!("h3_3", (a1: u8, a2: (), a3: T, a4: i16, a5: u32, a6: IpAddr, a7: f64));
    h3!("h3_4", (a1: u8, a2: (), a3: u64, a4: T, a5: u32, a6: IpAddr, a7: f64));
    h3!("h3_5", (a1: u8, a2: (), a3: u64, a4: i16, a5: T, a6: IpAddr, a7: f64));
    h3!("h3_6", (a1: u8, a2: (), a3: u64, a4: i16, a5: u32, a6: T, a7: f64));
    h3!("h3_7", (a1: u8, a2: (), a3: u64, a4: i16, a5: u32, a6: IpAddr, a7: T));
}

fn reg_src<T: B>(items: &mut Vec<Item>) {
    push_fn(
        items,
        Function::new("src", "", vec!["k"], |k: u32| -> T { edges::<T>(tier())[k as usize].clone() }, location!()),
    );
}

// ------------------------------------------------------------------ helpers

#[derive(Clone)]
pub struct Info {
    pub roto: String,
    pub id: String,
    pub class: String,
    pub depth: usize,
    pub small_int: bool,
    pub zst_registered: bool,
    pub mentions_zst: bool,
    pub over_aligned: bool,
    pub max_align: usize,
}

pub fn info<T: B>() -> Info {
    Info {
        roto: T::roto(),
        id: T::id(),
        class: T::class(),
        depth: T::depth(),
        small_int: T::small_int(),
        zst_registered: T::zst_registered(),
        mentions_zst: T::mentions_zst(),
        over_aligned: T::over_aligned(),
        max_align: T::max_align(),
    }
}

pub fn case_json(i: &Info, route: &str, pos: u64, idx: usize, value: &str, script: &str) -> Value {
    json!({"route": route, "ty": i.roto, "class": i.class, "depth": i.depth, "small_int": i.small_int,
           "zst_registered": i.zst_registered, "max_align": i.max_align,
           "pos": pos, "value_index": idx & 0xffff_ffff, "stack_residue_class": idx >> 32,
           "value": value, "script": script, "fillers": FILL_ROTO})
}

pub fn runtime_with(items: Vec<Item>) -> Result<Runtime<NoCtx>, String> {
    let mut rt = Runtime::from_lib(host::lib()).map_err(|e| format!("host lib: {e}"))?;
    rt.add(crate::align::items()).map_err(|e| format!("aligned types: {e}"))?;
    rt.add(items).map_err(|e| format!("check lib: {e}"))?;
    Ok(rt)
}

pub fn compile(cx: &mut Cx, rt: &Runtime<NoCtx>, src: &str, what: &str, ty: &str) -> Option<Package<NoCtx>> {
    match host::compile(rt, src) {
        Ok(p) => Some(p),
        Err(e) => {
            let (class, msg) = match &e {
                host::CompileFail::Report(s) => ("compile", s.clone()),
                host::CompileFail::Panic(s) => ("compile-panic", s.clone()),
            };
            let head: String = msg.chars().take(600).collect();
            cx.violation(
                class,
                SUB_SETUP,
                json!({"route": what, "ty": ty, "script": src.chars().take(4000).collect::<String>()}),
                json!("the script compiles"),
                json!(head),
            );
            None
        }
    }
}

/// set-up of a unit: runtime with the host library plus `items`, one script
fn setup(cx: &mut Cx, i: &Info, route: &str, items: Vec<Item>, src: &str) -> Option<(Runtime<NoCtx>, Package<NoCtx>)> {
    let rt = match runtime_with(items) {
        Ok(rt) => rt,
        Err(e) => {
            cx.violation("register", SUB_SETUP, json!({"route": route, "ty": i.roto}), json!("Ok"), json!(e));
            return None;
        }
    };
    let pkg = compile(cx, &rt, src, route, &i.roto)?;
    Some((rt, pkg))
}

/// new ledger anomalies of kind "garbage" (a Tr read from memory that never
/// held one) since `before`
pub fn garbage_since(before: usize) -> Vec<String> {
    let (_, _, an) = host::ledger_snapshot();
    an.iter()
        .skip(before)
        .filter(|a| matches!(a, host::Anomaly::Garbage { .. }))
        .map(|a| format!("{a:?}"))
        .collect()
}
pub fn anomalies_now() -> usize {
    host::ledger_snapshot().2.len()
}

fn report_garbage(cx: &mut Cx, i: &Info, before: usize, route: &str) {
    let g = garbage_since(before);
    if !g.is_empty() {
        cx.violation(
            "garbage",
            SUB_SETUP,
            json!({"route": route, "ty": i.roto, "class": i.class}),
            json!("no tracked value is read from memory that never held one"),
            json!(g.into_iter().take(5).collect::<Vec<_>>()),
        );
    }
}

fn getfn_violation(cx: &mut Cx, i: &Info, route: &str, rcode: u64, pos: u64, script: &str, e: String) {
    cx.violation(
        "get_function",
        sub(rcode, pos, 0),
        case_json(i, route, pos, 0, "", script),
        json!("Ok"),
        json!(e.chars().take(300).collect::<String>()),
    );
}

/// Reports the misalignment events recorded by the over-aligned types since
/// the last `take_events` as one violation of class "misaligned".
#[allow(clippy::too_many_arguments)]
pub fn misaligned_violation(cx: &mut Cx, i: &Info, route: &str, pos: u64, idx: usize, input: &str, script: &str, s: u64) {
    let ev = crate::align::take_events();
    if ev.is_empty() {
        return;
    }
    let mut c = case_json(i, route, pos, idx, input, script);
    c["all_on_stack"] = json!(ev.iter().all(|e| e.on_stack));
    c["misaligned_type_align"] = json!(ev.iter().map(|e| e.align).max());
    let ops: Vec<String> =
        ev.iter().map(|e| format!("{} {}: address % {} = {}", e.ty, e.op, e.align, e.rem)).collect();
    cx.violation(
        "misaligned",
        s,
        c,
        json!("every address at which a registered type is cloned, dropped or compared is a multiple of its alignment"),
        json!(ops),
    );
}

/// One (route, position) loop, on rendered values only (not generic):
/// `call(i)` runs case i on the implementation and returns what arrived
/// (the value and the sink log); `want(i)` is what was sent.
struct Loop<'a> {
    info: &'a Info,
    route: &'static str,
    rcode: u64,
    pos: u64,
    script: &'a str,
    /// rendered input of case i (for the report)
    input: &'a dyn Fn(usize) -> String,
    want: &'a dyn Fn(usize) -> (String, Vec<String>),
    fillers: Option<&'a dyn Fn(usize) -> [String; 7]>,
    what: Option<&'static str>,
}

fn run_loop(cx: &mut Cx, l: &Loop, n: usize, call: &mut dyn FnMut(usize) -> (String, Vec<String>)) {
    let mut cnt = 0u64;
    let mut h = 0u64;
    let mut reached = 4;
    for i0 in 0..n {
      let r = crate::align::for_residues(l.info.over_aligned, &mut |k| {
        // the stack residue class is part of the case id
        let i = i0 | ((k as usize) << 32);
        let s = sub(l.rcode, l.pos, i);
        if !cx.case(s) {
            return;
        }
        let (want, want_log) = (l.want)(i0);
        crate::align::take_events();
        let (got, got_log) = call(i0);
        let got = clean(got);
        cnt += 1;
        misaligned_violation(cx, l.info, l.route, l.pos, i, &(l.input)(i0), l.script, s);
        h = vcore::util::mix(h, vcore::util::fnv_str(&got));
        if got != want || got_log != want_log {
            let mut c = case_json(l.info, l.route, l.pos, i, &(l.input)(i0), l.script);
            if let Some(f) = l.fillers {
                c["filler_values"] = json!(f(i0));
                c["value_mismatch"] = json!(got != want);
                // r3: the value is part of the log at position pos
                let mut a = got_log.clone();
                let mut b = want_log.clone();
                if l.rcode == R3 {
                    let k = l.pos as usize - 1;
                    if a.len() == 7 && b.len() == 7 {
                        a.remove(k);
                        b.remove(k);
                    }
                }
                c["filler_mismatch"] = json!(a != b);
            }
            if let Some(w) = l.what {
                c["what"] = json!(w);
            }
            c["arrived_this_run"] = json!(got);
            let (e, o) = if l.fillers.is_some() {
                c["sinks_saw_this_run"] = json!(got_log);
                (
                    json!({"arrived": want, "sinks_saw": want_log}),
                    json!({"arrived_agrees_up_to": agree_prefix(&want, &got), "sinks_agree": agree_list(&want_log, &got_log)}),
                )
            } else {
                (json!({"arrived": want}), json!({"arrived_agrees_up_to": agree_prefix(&want, &got)}))
            };
            cx.violation("mismatch", s, c, e, o);
        }
      });
      reached = reached.min(r);
    }
    if reached < 4 {
        cx.count("stack_residues_not_reached", 1);
    }
    cx.states(cnt);
    cx.transitions(cnt);
    cx.validated(cnt);
    cx.count(&format!("calls_{}", l.route), cnt);
    if cnt > 0 {
        cx.outcome(h);
        if n > 1 {
            cx.nontrivial(vcore::util::mix(vcore::util::fnv_str(&l.info.roto), l.rcode * 16 + l.pos));
        }
    }
}

fn shows<T: B>(ev: &[T]) -> Vec<String> {
    ev.iter().map(|v| v.show()).collect()
}

// ------------------------------------------------------------------ r1

pub fn run_g1<T: B>(cx: &mut Cx) {
    if abandoned(cx) {
        return;
    }
    let t = cx.cfg.tier;
    set_tier(t);
    let inf = info::<T>();
    let src = script_g1(&inf.roto);
    if !cx.case(SUB_SETUP) {
        return;
    }
    let ev = edges::<T>(t);
    let sh = shows(&ev);
    let Some((rt, mut pkg)) = setup(cx, &inf, "r1", filler_sinks(), &src) else { return };
    let before = anomalies_now();
    cx.sample(json!({"route": "r1", "ty": inf.roto, "class": inf.class, "values": ev.len(),
                     "first_value": sh[0], "script": script_r1(&inf.roto, 3)}));
    macro_rules! pos {
        ($p:literal, $name:literal, ($($ty:ty),*), |$v:ident, $f:ident| ($($arg:expr),*)) => {{
            let script = script_r1(&inf.roto, $p);
            match pkg.get_function::<fn($($ty),*) -> T>($name) {
                Err(e) => getfn_violation(cx, &inf, "r1", R1, $p, &script, e.to_string()),
                Ok(func) => {
                    let l = Loop {
                        info: &inf, route: "r1", rcode: R1, pos: $p, script: &script,
                        input: &|i| sh[i].clone(),
                        want: &|i| (sh[i].clone(), expect_log(&fill(i, $p), $p, None)),
                        fillers: Some(&|i| fill(i, $p).shows()),
                        what: None,
                    };
                    run_loop(cx, &l, ev.len(), &mut |i| {
                        let $v = &ev[i];
                        let $f = fill(i, $p);
                        take_log();
                        let r = func.call_tuple(&mut NoCtx, ($($arg),*));
                        let got = r.show();
                        drop(r);
                        (got, take_log())
                    });
                }
            }
        }};
    }
    pos!(1, "r1_1", (T, (), u64, i16, u32, IpAddr, f64), |v, f| (v.clone(), (), f.c, f.d, f.e, f.f, f.g));
    pos!(2, "r1_2", (u8, T, u64, i16, u32, IpAddr, f64), |v, f| (f.a, v.clone(), f.c, f.d, f.e, f.f, f.g));
    pos!(3, "r1_3", (u8, (), T, i16, u32, IpAddr, f64), |v, f| (f.a, (), v.clone(), f.d, f.e, f.f, f.g));
    pos!(4, "r1_4", (u8, (), u64, T, u32, IpAddr, f64), |v, f| (f.a, (), f.c, v.clone(), f.e, f.f, f.g));
    pos!(5, "r1_5", (u8, (), u64, i16, T, IpAddr, f64), |v, f| (f.a, (), f.c, f.d, v.clone(), f.f, f.g));
    pos!(6, "r1_6", (u8, (), u64, i16, u32, T, f64), |v, f| (f.a, (), f.c, f.d, f.e, v.clone(), f.g));
    pos!(7, "r1_7", (u8, (), u64, i16, u32, IpAddr, T), |v, f| (f.a, (), f.c, f.d, f.e, f.f, v.clone()));
    report_garbage(cx, &inf, before, "r1");
    drop(pkg);
    drop(rt);
}

pub fn describe_g1<T: B>(t: Tier, s: u64) -> Value {
    let inf = info::<T>();
    if s == SUB_SETUP {
        return json!({"route": "r1", "kind": "setup", "ty": inf.roto, "script": script_g1(&inf.roto)});
    }
    let (_, p, i) = unsub(s);
    let i0 = i & 0xffff_ffff;
    let ev = T::edges(t);
    let v = ev.get(i0).map(|v| v.show()).unwrap_or_default();
    let mut c = case_json(&inf, "r1", p, i, &v, &script_r1(&inf.roto, p));
    c["filler_values"] = json!(fill(i0, p).shows());
    c
}

// ------------------------------------------------------------------ r3 + r4

pub fn run_g3<T: B>(cx: &mut Cx) {
    if abandoned(cx) {
        return;
    }
    let t = cx.cfg.tier;
    set_tier(t);
    let inf = info::<T>();
    let src = script_g3(&inf.roto);
    if !cx.case(SUB_SETUP) {
        return;
    }
    let ev = edges::<T>(t);
    let sh = shows(&ev);
    let mut items = vec![];
    reg_r3::<T>(&mut items);
    reg_src::<T>(&mut items);
    let Some((rt, mut pkg)) = setup(cx, &inf, "r3", items, &src) else { return };
    let before = anomalies_now();
    cx.sample(json!({"route": "r3", "ty": inf.roto, "class": inf.class, "values": ev.len(),
                     "first_value": sh[0], "script": script_r3(&inf.roto, 5)}));
    let lit = Fill::lit();
    for p in 1..=7u64 {
        let script = script_r3(&inf.roto, p);
        match pkg.get_function::<fn(T) -> ()>(&format!("r3_{p}")) {
            Err(e) => getfn_violation(cx, &inf, "r3", R3, p, &script, e.to_string()),
            Ok(func) => {
                let l = Loop {
                    info: &inf, route: "r3", rcode: R3, pos: p, script: &script,
                    input: &|i| sh[i].clone(),
                    want: &|i| (sh[i].clone(), expect_log(&lit, p, Some(sh[i].clone()))),
                    fillers: Some(&|_| lit.shows()),
                    what: None,
                };
                run_loop(cx, &l, ev.len(), &mut |i| {
                    take_log();
                    func.call_tuple(&mut NoCtx, (ev[i].clone(),));
                    let log = take_log();
                    (log.get(p as usize - 1).cloned().unwrap_or_default(), log)
                });
            }
        }
    }
    {
        let script = script_r4(&inf.roto);
        match pkg.get_function::<fn(u32) -> T>("r4") {
            Err(e) => getfn_violation(cx, &inf, "r4", R4, 0, &script, e.to_string()),
            Ok(func) => {
                let l = Loop {
                    info: &inf, route: "r4", rcode: R4, pos: 0, script: &script,
                    input: &|i| sh[i].clone(),
                    want: &|i| (sh[i].clone(), vec![]),
                    fillers: None,
                    what: None,
                };
                run_loop(cx, &l, ev.len(), &mut |i| {
                    let r = func.call_tuple(&mut NoCtx, (i as u32,));
                    let got = r.show();
                    drop(r);
                    (got, vec![])
                });
            }
        }
    }
    report_garbage(cx, &inf, before, "r3/r4");
    drop(pkg);
    drop(rt);
}

pub fn describe_g3<T: B>(t: Tier, s: u64) -> Value {
    let inf = info::<T>();
    if s == SUB_SETUP {
        return json!({"route": "r3", "kind": "setup", "ty": inf.roto, "script": script_g3(&inf.roto)});
    }
    let (r, p, i) = unsub(s);
    let ev = T::edges(t);
    let v = ev.get(i & 0xffff_ffff).map(|v| v.show()).unwrap_or_default();
    if r == R4 {
        case_json(&inf, "r4", 0, i, &v, &script_r4(&inf.roto))
    } else {
        let mut c = case_json(&inf, "r3", p, i, &v, &script_r3(&inf.roto, p));
        c["filler_values"] = json!(Fill::lit().shows());
        c
    }
}

// ------------------------------------------------------------------ r2 + r5 (+ r7)

pub fn run_g2<T: B>(cx: &mut Cx) {
    if abandoned(cx) {
        return;
    }
    set_tier(cx.cfg.tier);
    if !cx.case(SUB_SETUP) {
        return;
    }
    let inf = info::<T>();
    let ev = edges::<T>(Tier::Quick);
    let sh = shows(&ev);
    let lits: Vec<Option<String>> = ev.iter().map(|v| v.lit()).collect();
    let src = script_g2(&inf.roto, &lits);
    let mut items: Vec<Item> = vec![];
    for (i, v) in ev.iter().enumerate() {
        match Constant::new(format!("C5_{i}"), "", v.clone(), location!()) {
            Ok(c) => items.push(c.into()),
            Err(e) => {
                cx.violation(
                    "register",
                    SUB_SETUP,
                    json!({"route": "r5", "ty": inf.roto}),
                    json!("Ok"),
                    json!(e.to_string()),
                );
                return;
            }
        }
    }
    let before = anomalies_now();
    if let Some((rt, mut pkg)) = setup(cx, &inf, "r2/r5", items, &src) {
        cx.sample(json!({"route": "r2", "ty": inf.roto, "class": inf.class, "values": ev.len(),
                         "script": lits.iter().enumerate().rev().find_map(|(i, l)| script_r2(&inf.roto, i, l))}));
        for (rcode, route) in [(R2, "r2"), (R5, "r5")] {
            // the literal-less values of r2 are left out (counted as unspecified)
            let idx: Vec<usize> = (0..ev.len()).filter(|i| rcode == R5 || lits[*i].is_some()).collect();
            let no_lit = (ev.len() - idx.len()) as u64;
            if no_lit > 0 {
                cx.unspecified(no_lit);
                cx.count("values_without_literal", no_lit);
            }
            // one tiny script function per value: the loop is over functions
            let mut cnt = 0u64;
            let mut h = 0u64;
            let mut reached = 4;
            for i0 in idx {
                let script =
                    if rcode == R2 { script_r2(&inf.roto, i0, &lits[i0]).unwrap() } else { script_r5(&inf.roto, i0) };
                if !cx.case(sub(rcode, 0, i0)) {
                    continue;
                }
                let func = match pkg.get_function::<fn() -> T>(&format!("{route}_{i0}")) {
                    Ok(f) => f,
                    Err(e) => {
                        getfn_violation(cx, &inf, route, rcode, 0, &script, e.to_string());
                        break;
                    }
                };
                let r = crate::align::for_residues(inf.over_aligned, &mut |k| {
                    let i = i0 | ((k as usize) << 32);
                    let s = sub(rcode, 0, i);
                    if !cx.case(s) {
                        return;
                    }
                    crate::align::take_events();
                    let r = func.call_tuple(&mut NoCtx, ());
                    let got = clean(r.show());
                    drop(r);
                    cnt += 1;
                    h = vcore::util::mix(h, vcore::util::fnv_str(&got));
                    misaligned_violation(cx, &inf, route, 0, i, &sh[i0], &script, s);
                    if got != sh[i0] {
                        let mut c = case_json(&inf, route, 0, i, &sh[i0], &script);
                        c["arrived_this_run"] = json!(got);
                        cx.violation(
                            "mismatch",
                            s,
                            c,
                            json!({"arrived": sh[i0]}),
                            json!({"arrived_agrees_up_to": agree_prefix(&sh[i0], &got)}),
                        );
                    }
                });
                reached = reached.min(r);
            }
            if reached < 4 {
                cx.count("stack_residues_not_reached", 1);
            }
            cx.states(cnt);
            cx.transitions(cnt);
            cx.validated(cnt);
            cx.count(&format!("calls_{route}"), cnt);
            if cnt > 0 {
                cx.outcome(h);
                if ev.len() > 1 {
                    cx.nontrivial(vcore::util::mix(vcore::util::fnv_str(&inf.roto), rcode * 16));
                }
            }
        }
        drop(pkg);
        drop(rt);
    }
    report_garbage(cx, &inf, before, "r2/r5");
    T::r7_run(cx);
}

pub fn describe_g2<T: B>(t: Tier, s: u64) -> Value {
    let inf = info::<T>();
    let ev = T::edges(Tier::Quick);
    if s == SUB_SETUP {
        let lits: Vec<Option<String>> = ev.iter().map(|v| v.lit()).collect();
        let script: String = script_g2(&inf.roto, &lits).chars().take(6000).collect();
        return json!({"route": "r2/r5/r7", "kind": "setup", "ty": inf.roto, "script": script,
                      "r7_script": T::r7_script()});
    }
    let (r, p, i) = unsub(s);
    if r == R7 || r == R9 {
        return T::r7_describe(t, r, p, i);
    }
    let i0 = i & 0xffff_ffff;
    let v = ev.get(i0);
    let show = v.map(|v| v.show()).unwrap_or_default();
    if r == R2 {
        let sc = v.and_then(|v| script_r2(&inf.roto, i0, &v.lit())).unwrap_or_default();
        case_json(&inf, "r2", 0, i, &show, &sc)
    } else {
        case_json(&inf, "r5", 0, i, &show, &script_r5(&inf.roto, i0))
    }
}

// ------------------------------------------------------------------ r7

/// names of a two-variant enum: (type constructor, variant A, variant B)
pub struct Names {
    pub ty: &'static str,
    pub a: &'static str,
    pub b: &'static str,
}

pub fn script_r7_option(p: &str) -> String {
    let o = format!("Option[{p}]");
    format!(
        "fn mk_a(v: {p}) -> {o} {{\n    Option.Some(v)\n}}\n\
         fn un_a(x: {o}, d: {p}) -> {p} {{\n    match x {{\n        Some(v) => v,\n        None => d,\n    }}\n}}\n\
         fn disc(x: {o}) -> u32 {{\n    match x {{\n        Some(v) => 1,\n        None => 2,\n    }}\n}}\n"
    )
}

pub fn script_r7_two(n: &Names, a: &str, e: &str) -> String {
    let r = format!("{}[{a}, {e}]", n.ty);
    let (ty, va, vb) = (n.ty, n.a, n.b);
    format!(
        "fn mk_a(v: {a}) -> {r} {{\n    {ty}.{va}(v)\n}}\n\
         fn mk_b(v: {e}) -> {r} {{\n    {ty}.{vb}(v)\n}}\n\
         fn un_a(x: {r}, d: {a}) -> {a} {{\n    match x {{\n        {va}(v) => v,\n        {vb}(w) => d,\n    }}\n}}\n\
         fn un_b(x: {r}, d: {e}) -> {e} {{\n    match x {{\n        {va}(v) => d,\n        {vb}(w) => w,\n    }}\n}}\n\
         fn disc(x: {r}) -> u32 {{\n    match x {{\n        {va}(v) => 1,\n        {vb}(w) => 2,\n    }}\n}}\n"
    )
}

const R7_WHAT: [&str; 6] = [
    "",
    "construct variant 1 in the script from a Rust payload",
    "construct variant 2 in the script from a Rust payload",
    "match in the script, return the payload of variant 1 (or the default argument)",
    "match in the script, return the payload of variant 2 (or the default argument)",
    "match in the script, return the variant number",
];

fn r7_case(i: &Info, pos: u64, idx: usize, input: &str, script: &str) -> Value {
    let mut c = case_json(i, "r7", pos, idx, input, script);
    c["what"] = json!(R7_WHAT[(pos as usize).min(5)]);
    c
}

fn r7_loop<'a>(inf: &'a Info, src: &'a str, pos: u64, input: &'a dyn Fn(usize) -> String, want: &'a dyn Fn(usize) -> (String, Vec<String>)) -> Loop<'a> {
    Loop { info: inf, route: "r7", rcode: R7, pos, script: src, input, want, fillers: None, what: Some(R7_WHAT[pos as usize]) }
}

pub fn r7_option<P: B>(cx: &mut Cx) {
    let t = cx.cfg.tier;
    let inf = info::<Option<P>>();
    let src = script_r7_option(&P::roto());
    if !cx.case(SUB_SETUP) {
        return;
    }
    let Some((rt, mut pkg)) = setup(cx, &inf, "r7", vec![], &src) else { return };
    let before = anomalies_now();
    let pe = edges::<P>(t);
    let oe = edges::<Option<P>>(t);
    let (psh, osh) = (shows(&pe), shows(&oe));
    cx.sample(json!({"route": "r7", "ty": inf.roto, "values": oe.len(), "script": src}));
    match pkg.get_function::<fn(P) -> Option<P>>("mk_a") {
        Err(e) => getfn_violation(cx, &inf, "r7", R7, 1, &src, e.to_string()),
        Ok(f) => run_loop(cx, &r7_loop(&inf, &src, 1, &|i| psh[i].clone(), &|i| (format!("Some({})", psh[i]), vec![])), pe.len(), &mut |i| {
            (f.call_tuple(&mut NoCtx, (pe[i].clone(),)).show(), vec![])
        }),
    }
    match pkg.get_function::<fn(Option<P>, P) -> P>("un_a") {
        Err(e) => getfn_violation(cx, &inf, "r7", R7, 3, &src, e.to_string()),
        Ok(f) => run_loop(
            cx,
            &r7_loop(&inf, &src, 3, &|i| osh[i].clone(), &|i| (match &oe[i] { Some(p) => p.show(), None => psh[0].clone() }, vec![])),
            oe.len(),
            &mut |i| {
                let d = match &oe[i] {
                    Some(p) => p.other(),
                    None => pe[0].clone(),
                };
                (f.call_tuple(&mut NoCtx, (oe[i].clone(), d)).show(), vec![])
            },
        ),
    }
    match pkg.get_function::<fn(Option<P>) -> u32>("disc") {
        Err(e) => getfn_violation(cx, &inf, "r7", R7, 5, &src, e.to_string()),
        Ok(f) => run_loop(
            cx,
            &r7_loop(&inf, &src, 5, &|i| osh[i].clone(), &|i| (if oe[i].is_some() { "1".into() } else { "2".into() }, vec![])),
            oe.len(),
            &mut |i| (f.call_tuple(&mut NoCtx, (oe[i].clone(),)).to_string(), vec![]),
        ),
    }
    report_garbage(cx, &inf, before, "r7");
    drop(pkg);
    drop(rt);
}

pub fn r7_option_describe<P: B>(t: Tier, pos: u64, idx: usize) -> Value {
    let src = script_r7_option(&P::roto());
    let i0 = idx & 0xffff_ffff;
    let input = if pos == 1 {
        P::edges(t).get(i0).map(|v| v.show())
    } else {
        <Option<P>>::edges(t).get(i0).map(|v| v.show())
    };
    r7_case(&info::<Option<P>>(), pos, idx, &input.unwrap_or_default(), &src)
}

/// `R` is `Result<A, E>` or `Verdict<A, E>`
pub fn r7_two<A: B, E: B, R: B>(
    cx: &mut Cx,
    n: &Names,
    mk_a: fn(A) -> R,
    mk_b: fn(E) -> R,
    split: fn(&R) -> Result<&A, &E>,
) {
    let t = cx.cfg.tier;
    let inf = info::<R>();
    let src = script_r7_two(n, &A::roto(), &E::roto());
    if !cx.case(SUB_SETUP) {
        return;
    }
    let Some((rt, mut pkg)) = setup(cx, &inf, "r7", vec![], &src) else { return };
    let before = anomalies_now();
    let ae = edges::<A>(t);
    let ee = edges::<E>(t);
    let re = edges::<R>(t);
    let (ash, esh, rsh) = (shows(&ae), shows(&ee), shows(&re));
    cx.sample(json!({"route": "r7", "ty": inf.roto, "values": re.len(), "script": src}));
    match pkg.get_function::<fn(A) -> R>("mk_a") {
        Err(e) => getfn_violation(cx, &inf, "r7", R7, 1, &src, e.to_string()),
        Ok(f) => run_loop(cx, &r7_loop(&inf, &src, 1, &|i| ash[i].clone(), &|i| (mk_a(ae[i].clone()).show(), vec![])), ae.len(), &mut |i| {
            (f.call_tuple(&mut NoCtx, (ae[i].clone(),)).show(), vec![])
        }),
    }
    match pkg.get_function::<fn(E) -> R>("mk_b") {
        Err(e) => getfn_violation(cx, &inf, "r7", R7, 2, &src, e.to_string()),
        Ok(f) => run_loop(cx, &r7_loop(&inf, &src, 2, &|i| esh[i].clone(), &|i| (mk_b(ee[i].clone()).show(), vec![])), ee.len(), &mut |i| {
            (f.call_tuple(&mut NoCtx, (ee[i].clone(),)).show(), vec![])
        }),
    }
    match pkg.get_function::<fn(R, A) -> A>("un_a") {
        Err(e) => getfn_violation(cx, &inf, "r7", R7, 3, &src, e.to_string()),
        Ok(f) => run_loop(
            cx,
            &r7_loop(&inf, &src, 3, &|i| rsh[i].clone(), &|i| (match split(&re[i]) { Ok(a) => a.show(), Err(_) => ash[0].clone() }, vec![])),
            re.len(),
            &mut |i| {
                let d = match split(&re[i]) {
                    Ok(a) => a.other(),
                    Err(_) => ae[0].clone(),
                };
                (f.call_tuple(&mut NoCtx, (re[i].clone(), d)).show(), vec![])
            },
        ),
    }
    match pkg.get_function::<fn(R, E) -> E>("un_b") {
        Err(e) => getfn_violation(cx, &inf, "r7", R7, 4, &src, e.to_string()),
        Ok(f) => run_loop(
            cx,
            &r7_loop(&inf, &src, 4, &|i| rsh[i].clone(), &|i| (match split(&re[i]) { Err(e) => e.show(), Ok(_) => esh[0].clone() }, vec![])),
            re.len(),
            &mut |i| {
                let d = match split(&re[i]) {
                    Err(e) => e.other(),
                    Ok(_) => ee[0].clone(),
                };
                (f.call_tuple(&mut NoCtx, (re[i].clone(), d)).show(), vec![])
            },
        ),
    }
    match pkg.get_function::<fn(R) -> u32>("disc") {
        Err(e) => getfn_violation(cx, &inf, "r7", R7, 5, &src, e.to_string()),
        Ok(f) => run_loop(
            cx,
            &r7_loop(&inf, &src, 5, &|i| rsh[i].clone(), &|i| (if split(&re[i]).is_ok() { "1".into() } else { "2".into() }, vec![])),
            re.len(),
            &mut |i| (f.call_tuple(&mut NoCtx, (re[i].clone(),)).to_string(), vec![]),
        ),
    }
    report_garbage(cx, &inf, before, "r7");
    drop(pkg);
    drop(rt);
}

pub fn r7_two_describe<A: B, E: B, R: B>(n: &Names, t: Tier, pos: u64, idx: usize) -> Value {
    let src = script_r7_two(n, &A::roto(), &E::roto());
    let i0 = idx & 0xffff_ffff;
    let input = match pos {
        1 => A::edges(t).get(i0).map(|v| v.show()),
        2 => E::edges(t).get(i0).map(|v| v.show()),
        _ => R::edges(t).get(i0).map(|v| v.show()),
    };
    r7_case(&info::<R>(), pos, idx, &input.unwrap_or_default(), &src)
}

// ------------------------------------------------------------------ r9

/// r9 (every enum-typed table entry E): lists of three E (mixed variants)
/// BUILT IN THE SCRIPT - as a literal `[a, b, c]` and by `push` onto `[]` -
/// and (a) returned to Rust, (b) passed to a host function, (c) indexed back in
/// the script with `get(i)`; and a Rust-built list read element-wise by the
/// script. The element stride of a script-built list is the size Roto computes
/// for E: every element after the first shows a wrong size.
pub const R9: u64 = 9;

const R9_FN: [&str; 8] = ["", "l_lit", "l_push", "l_host_lit", "l_host_push", "l_get_lit", "l_get_push", "l_read"];
const R9_WHAT: [&str; 8] = [
    "",
    "list literal [a, b, c] built in the script, returned to Rust",
    "list built in the script by push onto [], returned to Rust",
    "list literal built in the script, passed to a host function",
    "list built in the script by push, passed to a host function",
    "list literal built in the script, element i read back in the script with get(i)",
    "list built in the script by push, element i read back in the script with get(i)",
    "Rust-built list, element i read by the script with get(i)",
];

pub fn script_r9(e: &str) -> String {
    let lit = "    let l = [a, b, c];\n";
    let push = "    let l = [];\n    l.push(a);\n    l.push(b);\n    l.push(c);\n";
    format!(
        "fn l_lit(a: {e}, b: {e}, c: {e}) -> List[{e}] {{\n{lit}    l\n}}\n\
         fn l_push(a: {e}, b: {e}, c: {e}) -> List[{e}] {{\n{push}    l\n}}\n\
         fn l_host_lit(a: {e}, b: {e}, c: {e}) {{\n{lit}    snk_list(l);\n}}\n\
         fn l_host_push(a: {e}, b: {e}, c: {e}) {{\n{push}    snk_list(l);\n}}\n\
         fn l_get_lit(a: {e}, b: {e}, c: {e}, i: u64) -> Option[{e}] {{\n{lit}    l.get(i)\n}}\n\
         fn l_get_push(a: {e}, b: {e}, c: {e}, i: u64) -> Option[{e}] {{\n{push}    l.get(i)\n}}\n\
         fn l_read(l: List[{e}], i: u64) -> Option[{e}] {{\n    l.get(i)\n}}\n"
    )
}

/// the three elements of case i: mixed variants for every enum edge order
fn triple(n: usize, i: usize) -> [usize; 3] {
    [i, (i + n / 2) % n, n - 1 - i]
}

fn r9_input(sh: &[String], i: usize) -> String {
    let t = triple(sh.len(), i);
    format!("[{}, {}, {}]", sh[t[0]], sh[t[1]], sh[t[2]])
}

fn r9_elem(sh: &[String], k: usize) -> String {
    let (i, j) = (k / 4, k % 4);
    if j < 3 { format!("Some({})", sh[triple(sh.len(), i)[j]]) } else { "None".into() }
}

pub fn r9_list<E: B>(cx: &mut Cx) {
    let t = cx.cfg.tier;
    let inf = info::<E>();
    let src = script_r9(&inf.roto);
    if !cx.case(SUB_SETUP) {
        return;
    }
    let mut items = vec![];
    push_fn(&mut items, Function::new("snk_list", "", vec!["l"], |l: List<E>| log(l.show()), location!()));
    let Some((rt, mut pkg)) = setup(cx, &inf, "r9", items, &src) else { return };
    let before = anomalies_now();
    let ev = edges::<E>(t);
    let sh = shows(&ev);
    let n = ev.len();
    cx.sample(json!({"route": "r9", "ty": inf.roto, "triples": n, "script": src}));
    let abc = |i: usize| {
        let t = triple(n, i);
        (ev[t[0]].clone(), ev[t[1]].clone(), ev[t[2]].clone())
    };
    macro_rules! lp {
        ($pos:expr, $input:expr, $want:expr) => {
            Loop {
                info: &inf,
                route: "r9",
                rcode: R9,
                pos: $pos,
                script: &src,
                input: $input,
                want: $want,
                fillers: None,
                what: Some(R9_WHAT[$pos as usize]),
            }
        };
    }
    let whole = |i: usize| r9_input(&sh, i);
    let whole_want = |i: usize| (r9_input(&sh, i), vec![]);
    let elem_in = |k: usize| format!("{} get({})", r9_input(&sh, k / 4), k % 4);
    let elem_want = |k: usize| (r9_elem(&sh, k), vec![]);
    for pos in [1u64, 2] {
        match pkg.get_function::<fn(E, E, E) -> List<E>>(R9_FN[pos as usize]) {
            Err(e) => getfn_violation(cx, &inf, "r9", R9, pos, &src, e.to_string()),
            Ok(f) => run_loop(cx, &lp!(pos, &whole, &whole_want), n, &mut |i| {
                let r = f.call_tuple(&mut NoCtx, abc(i));
                (r.show(), vec![])
            }),
        }
    }
    for pos in [3u64, 4] {
        match pkg.get_function::<fn(E, E, E) -> ()>(R9_FN[pos as usize]) {
            Err(e) => getfn_violation(cx, &inf, "r9", R9, pos, &src, e.to_string()),
            Ok(f) => run_loop(cx, &lp!(pos, &whole, &whole_want), n, &mut |i| {
                take_log();
                f.call_tuple(&mut NoCtx, abc(i));
                (take_log().join(" | "), vec![])
            }),
        }
    }
    for pos in [5u64, 6] {
        match pkg.get_function::<fn(E, E, E, u64) -> Option<E>>(R9_FN[pos as usize]) {
            Err(e) => getfn_violation(cx, &inf, "r9", R9, pos, &src, e.to_string()),
            Ok(f) => run_loop(cx, &lp!(pos, &elem_in, &elem_want), 4 * n, &mut |k| {
                let (a, b, c) = abc(k / 4);
                (f.call_tuple(&mut NoCtx, (a, b, c, (k % 4) as u64)).show(), vec![])
            }),
        }
    }
    match pkg.get_function::<fn(List<E>, u64) -> Option<E>>("l_read") {
        Err(e) => getfn_violation(cx, &inf, "r9", R9, 7, &src, e.to_string()),
        Ok(f) => run_loop(cx, &lp!(7u64, &elem_in, &elem_want), 4 * n, &mut |k| {
            let (a, b, c) = abc(k / 4);
            let l: List<E> = List::new();
            l.push(a);
            l.push(b);
            l.push(c);
            (f.call_tuple(&mut NoCtx, (l, (k % 4) as u64)).show(), vec![])
        }),
    }
    report_garbage(cx, &inf, before, "r9");
    drop(pkg);
    drop(rt);
}

pub fn r9_describe<E: B>(t: Tier, pos: u64, idx: usize) -> Value {
    let inf = info::<E>();
    let sh: Vec<String> = E::edges(t).iter().map(|v| v.show()).collect();
    let input = if sh.is_empty() {
        String::new()
    } else if pos >= 5 {
        let i0 = idx & 0xffff_ffff;
        format!("{} get({})", r9_input(&sh, (i0 / 4).min(sh.len() - 1)), i0 % 4)
    } else {
        r9_input(&sh, (idx & 0xffff_ffff).min(sh.len() - 1))
    };
    let mut c = case_json(&inf, "r9", pos, idx, &input, &script_r9(&inf.roto));
    c["what"] = json!(R9_WHAT[(pos as usize).min(7)]);
    c
}

// ------------------------------------------------------------------ table entries

pub const G1: u8 = 1;
pub const G2: u8 = 2;
pub const G3: u8 = 3;

pub trait Entry: Send + Sync {
    fn info(&self) -> Info;
    fn values(&self, t: Tier) -> usize;
    /// self-test of the table entry: the edge values are pairwise distinct
    /// (so that counting them as distinct cases is right and a swapped value
    /// is visible) and so are their literals
    fn lint(&self) -> Result<(), String>;
    fn run(&self, group: u8, cx: &mut Cx);
    fn describe(&self, group: u8, t: Tier, sub: u64) -> Value;
}

pub struct E<T>(PhantomData<fn() -> T>);

impl<T> Default for E<T> {
    fn default() -> Self {
        E(PhantomData)
    }
}

impl<T: B> Entry for E<T> {
    fn info(&self) -> Info {
        info::<T>()
    }
    fn values(&self, t: Tier) -> usize {
        T::edges(t).len()
    }
    fn lint(&self) -> Result<(), String> {
        // Building and rendering a list goes through roto's own List::push /
        // to_vec (code under test): list types are not linted, their edge
        // lists are distinct by construction when the payload's are.
        if T::roto().contains("List[") {
            return Ok(());
        }
        let ev = T::edges(Tier::Quick);
        let mut seen = std::collections::HashSet::new();
        let mut lits = std::collections::HashSet::new();
        if ev.is_empty() {
            return Err(format!("{}: empty edge list", T::roto()));
        }
        for v in &ev {
            if !seen.insert(v.show()) {
                return Err(format!("{}: edge value {} occurs twice", T::roto(), v.show()));
            }
            if let Some(l) = v.lit() {
                if !lits.insert(l.clone()) {
                    return Err(format!("{}: literal {l} occurs twice", T::roto()));
                }
            }
        }
        Ok(())
    }
    fn run(&self, group: u8, cx: &mut Cx) {
        match group {
            G1 => run_g1::<T>(cx),
            G2 => run_g2::<T>(cx),
            _ => run_g3::<T>(cx),
        }
    }
    fn describe(&self, group: u8, t: Tier, sub: u64) -> Value {
        match group {
            G1 => describe_g1::<T>(t, sub),
            G2 => describe_g2::<T>(t, sub),
            _ => describe_g3::<T>(t, sub),
        }
    }
}

pub type Table = Vec<Box<dyn Entry>>;

#[macro_export]
macro_rules! add {
    ($v:ident $t:ty) => {
        $v.push(Box::new($crate::routes::E::<$t>::default()));
    };
}
