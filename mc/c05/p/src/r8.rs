//! r8: script-COMPUTED small integers (and comparison results) passed to host
//! functions that widen them (`host::wide_*`, built at opt-level 3). The host
//! must see exactly the wrapped value: `wide_u8(a + b) == (a + b) as u8 as u64`.
//! Pass-through alone does not exercise the upper register bits: a value
//! computed in a 32/64-bit register carries the unwrapped result there.

use roto::NoCtx;
use vcore::{Cx, SUB_SETUP, Tier, Value, json};

#[derive(Clone, Copy, Debug)]
pub struct R8 {
    pub ty: &'static str,
    pub op: &'static str,
    /// false: the computed value is passed to a widening host function;
    /// true: it is RETURNED to Rust, which widens it (the caller of an
    /// `extern "C" fn -> u8` may equally assume an extended register)
    pub ret: bool,
}

pub const ARITH: [&str; 5] = ["id", "+", "-", "*", "neg"];
pub const CMP: [&str; 4] = ["<", "==", ">=", "!="];

pub fn units() -> Vec<R8> {
    let mut v = vec![];
    // simplest first: 8-bit, then 16-bit
    for ty in ["u8", "i8", "u16", "i16"] {
        for op in ARITH {
            if op == "neg" && ty.starts_with('u') {
                continue;
            }
            v.push(R8 { ty, op, ret: false });
        }
        for op in CMP {
            v.push(R8 { ty, op, ret: false });
        }
    }
    // bool computed by logic operators on bools
    for op in ["&&", "||", "not"] {
        v.push(R8 { ty: "bool", op, ret: false });
    }
    // the same computed values returned to Rust instead
    for ty in ["u8", "i8", "u16", "i16"] {
        for op in ["+", "-", "*"] {
            v.push(R8 { ty, op, ret: true });
        }
        v.push(R8 { ty, op: "<", ret: true });
    }
    v
}

fn bits(ty: &str) -> u32 {
    if ty == "bool" { 1 } else { ty[1..].parse().unwrap() }
}
fn signed(ty: &str) -> bool {
    ty.starts_with('i')
}

fn boundary(ty: &str) -> Vec<i128> {
    let b = bits(ty);
    let (min, max) = if signed(ty) { (-(1i128 << (b - 1)), (1i128 << (b - 1)) - 1) } else { (0, (1i128 << b) - 1) };
    let mut v: Vec<i128> = vec![0, 1, 2, 3, 7, 100, 127, 128, 129, 200, 255, 256, 257, 1000, 30000, 32767, 32768, 65000];
    let neg: Vec<i128> = v.iter().map(|x| -x).collect();
    v.extend(neg);
    v.extend([min, min + 1, max, max - 1, max / 2, min / 2]);
    v.retain(|x| *x >= min && *x <= max);
    v.sort();
    v.dedup();
    v
}

/// (domain of a, domain of b)
pub fn domains(u: &R8, t: Tier) -> (Vec<i128>, Vec<i128>) {
    if u.ty == "bool" {
        return (vec![0, 1], if u.op == "not" { vec![0] } else { vec![0, 1] });
    }
    let b = bits(u.ty);
    let full: Vec<i128> = if signed(u.ty) { (-(1i128 << (b - 1))..(1i128 << (b - 1))).collect() } else { (0..(1i128 << b)).collect() };
    let unary = u.op == "neg" || u.op == "id";
    let da = if b == 8 || t == Tier::Thorough { full.clone() } else { boundary(u.ty) };
    let db = if unary {
        vec![0]
    } else if b == 8 {
        full
    } else if t == Tier::Thorough {
        // boundary values plus every 127th value of the type
        let mut v = boundary(u.ty);
        v.extend(full.iter().copied().filter(|x| x.rem_euclid(127) == 7));
        v.sort();
        v.dedup();
        v
    } else {
        boundary(u.ty)
    };
    (da, db)
}

pub fn is_cmp(op: &str) -> bool {
    CMP.contains(&op) || ["&&", "||", "not"].contains(&op)
}

pub fn expr(u: &R8) -> String {
    match u.op {
        "id" => "a".into(),
        "neg" => "-a".into(),
        "not" => "!a".into(),
        op => format!("a {op} b"),
    }
}

pub fn script(u: &R8) -> String {
    let ty = u.ty;
    if u.ret {
        let ret = if is_cmp(u.op) { "bool" } else { ty };
        return format!("fn f(a: {ty}, b: {ty}) -> {ret} {{\n    {}\n}}\n", expr(u));
    }
    if is_cmp(u.op) {
        format!("fn f(a: {ty}, b: {ty}) -> u64 {{\n    wide_bool({})\n}}\n", expr(u))
    } else {
        let ret = if signed(ty) { "i64" } else { "u64" };
        format!("fn f(a: {ty}, b: {ty}) -> {ret} {{\n    wide_{ty}({})\n}}\n", expr(u))
    }
}

/// what the host function must see, widened
pub fn expected(u: &R8, a: i128, b: i128) -> i128 {
    let w = bits(u.ty);
    let wrap = |x: i128| -> i128 {
        let m = x & ((1i128 << w) - 1);
        if signed(u.ty) && m >= (1i128 << (w - 1)) { m - (1i128 << w) } else { m }
    };
    match u.op {
        "id" => a,
        "+" => wrap(a + b),
        "-" => wrap(a - b),
        "*" => wrap(a * b),
        "neg" => wrap(-a),
        "<" => (a < b) as i128,
        "==" => (a == b) as i128,
        ">=" => (a >= b) as i128,
        "!=" => (a != b) as i128,
        "&&" => (a != 0 && b != 0) as i128,
        "||" => (a != 0 || b != 0) as i128,
        "not" => (a == 0) as i128,
        _ => unreachable!(),
    }
}

fn case(u: &R8, a: i128, b: i128) -> Value {
    json!({"route": "r8", "ty": u.ty, "op": u.op, "small_int": true, "a": a.to_string(), "b": b.to_string(),
           "expr": expr(u), "widened_type_bits": if is_cmp(u.op) { 8 } else { bits(u.ty) },
           "script": script(u), "returned_to_rust": u.ret,
           "host_fn": if u.ret { "-".to_string() } else if is_cmp(u.op) { "wide_bool".to_string() } else { format!("wide_{}", u.ty) }})
}

macro_rules! pairs {
    ($cx:expr, $pkg:expr, $u:expr, $t:ty, $r:ty, $da:expr, $db:expr, $conv:expr) => {
        pairs!($cx, $pkg, $u, $t, $r, $da, $db, $conv, |x: $r| x as i128)
    };
    ($cx:expr, $pkg:expr, $u:expr, $t:ty, $r:ty, $da:expr, $db:expr, $conv:expr, $widen:expr) => {{
        match $pkg.get_function::<fn($t, $t) -> $r>("f") {
            Err(e) => $cx.violation("get_function", SUB_SETUP, case($u, 0, 0), json!("Ok"), json!(e.to_string())),
            Ok(f) => {
                let mut n = 0u64;
                let mut h = 0u64;
                let mut overflowing = 0u64;
                let mut bad = 0u32;
                for (ia, a) in $da.iter().enumerate() {
                    for (ib, b) in $db.iter().enumerate() {
                        let s = ((ia as u64) << 32) | ib as u64;
                        if !$cx.case(s) {
                            continue;
                        }
                        let conv = $conv;
                        let widen = $widen;
                        let got: i128 = widen(f.call_tuple(&mut NoCtx, (conv(*a), conv(*b))));
                        let want = expected($u, *a, *b);
                        n += 1;
                        h = vcore::util::mix(h, got as u64);
                        if !is_cmp($u.op) && $u.op != "id" {
                            let exact = match $u.op {
                                "+" => a + b,
                                "-" => a - b,
                                "*" => a * b,
                                _ => -a,
                            };
                            if exact != want {
                                overflowing += 1;
                            }
                        }
                        if got != want && bad >= 200 {
                            // vcore keeps 200 literal violations per unit and
                            // only counts the rest: same bookkeeping, without
                            // building the case
                            $cx.count("violations_raw", 1);
                            $cx.count("viol:mismatch", 1);
                            $cx.count("violations_dropped", 1);
                        } else if got != want {
                            bad += 1;
                            $cx.violation(
                                "mismatch",
                                s,
                                case($u, *a, *b),
                                json!({"host_saw": want.to_string()}),
                                json!({"host_saw": got.to_string()}),
                            );
                        }
                    }
                }
                $cx.states(n);
                $cx.transitions(n);
                $cx.validated(n);
                $cx.count("calls_r8", n);
                $cx.count("r8_pairs_whose_exact_result_overflows", overflowing);
                $cx.outcome(h);
                $cx.nontrivial(vcore::util::fnv_str(&script($u)));
            }
        }
    }};
}

pub fn run(u: &R8, cx: &mut Cx) {
    if crate::routes::abandoned(cx) {
        return;
    }
    let src = script(u);
    if !cx.case(SUB_SETUP) {
        return;
    }
    let rt = host::runtime();
    let Some(mut pkg) = crate::routes::compile(cx, &rt, &src, "r8", u.ty) else { return };
    let (da, db) = domains(u, cx.cfg.tier);
    cx.sample(json!({"route": "r8", "script": src, "pairs": da.len() * db.len()}));
    let cmp = is_cmp(u.op);
    if u.ret {
        match (u.ty, cmp) {
            ("u8", false) => pairs!(cx, pkg, u, u8, u8, da, db, |x: i128| x as u8, |x: u8| x as u64 as i128),
            ("i8", false) => pairs!(cx, pkg, u, i8, i8, da, db, |x: i128| x as i8, |x: i8| x as i64 as i128),
            ("u16", false) => pairs!(cx, pkg, u, u16, u16, da, db, |x: i128| x as u16, |x: u16| x as u64 as i128),
            ("i16", false) => pairs!(cx, pkg, u, i16, i16, da, db, |x: i128| x as i16, |x: i16| x as i64 as i128),
            ("u8", true) => pairs!(cx, pkg, u, u8, bool, da, db, |x: i128| x as u8, |x: bool| x as u64 as i128),
            ("i8", true) => pairs!(cx, pkg, u, i8, bool, da, db, |x: i128| x as i8, |x: bool| x as u64 as i128),
            ("u16", true) => pairs!(cx, pkg, u, u16, bool, da, db, |x: i128| x as u16, |x: bool| x as u64 as i128),
            ("i16", true) => pairs!(cx, pkg, u, i16, bool, da, db, |x: i128| x as i16, |x: bool| x as u64 as i128),
            _ => unreachable!(),
        }
        drop(pkg);
        drop(rt);
        return;
    }
    match (u.ty, cmp) {
        ("u8", false) => pairs!(cx, pkg, u, u8, u64, da, db, |x: i128| x as u8),
        ("u8", true) => pairs!(cx, pkg, u, u8, u64, da, db, |x: i128| x as u8),
        ("i8", false) => pairs!(cx, pkg, u, i8, i64, da, db, |x: i128| x as i8),
        ("i8", true) => pairs!(cx, pkg, u, i8, u64, da, db, |x: i128| x as i8),
        ("u16", false) => pairs!(cx, pkg, u, u16, u64, da, db, |x: i128| x as u16),
        ("u16", true) => pairs!(cx, pkg, u, u16, u64, da, db, |x: i128| x as u16),
        ("i16", false) => pairs!(cx, pkg, u, i16, i64, da, db, |x: i128| x as i16),
        ("i16", true) => pairs!(cx, pkg, u, i16, u64, da, db, |x: i128| x as i16),
        ("bool", _) => pairs!(cx, pkg, u, bool, u64, da, db, |x: i128| x != 0),
        _ => unreachable!(),
    }
    drop(pkg);
    drop(rt);
}

pub fn describe(u: &R8, t: Tier, s: u64) -> Value {
    if s == SUB_SETUP {
        return json!({"route": "r8", "kind": "setup", "ty": u.ty, "op": u.op, "script": script(u)});
    }
    let (da, db) = domains(u, t);
    let a = da.get((s >> 32) as usize).copied().unwrap_or(0);
    let b = db.get((s & 0xffff_ffff) as usize).copied().unwrap_or(0);
    case(u, a, b)
}

/// self-test of the oracle: `expected` agrees with Rust's own wrapping
/// arithmetic on every 8-bit pair and on the 16-bit boundary pairs
pub fn lint() -> Result<(), String> {
    for u in units() {
        if u.ty == "bool" {
            continue;
        }
        let (da, db) = domains(&u, Tier::Quick);
        for &a in &da {
            for &b in &db {
                let native: i128 = match (u.ty, u.op) {
                    ("u8", "+") => (a as u8).wrapping_add(b as u8) as i128,
                    ("u8", "-") => (a as u8).wrapping_sub(b as u8) as i128,
                    ("u8", "*") => (a as u8).wrapping_mul(b as u8) as i128,
                    ("i8", "+") => (a as i8).wrapping_add(b as i8) as i128,
                    ("i8", "-") => (a as i8).wrapping_sub(b as i8) as i128,
                    ("i8", "*") => (a as i8).wrapping_mul(b as i8) as i128,
                    ("i8", "neg") => (a as i8).wrapping_neg() as i128,
                    ("u16", "+") => (a as u16).wrapping_add(b as u16) as i128,
                    ("u16", "-") => (a as u16).wrapping_sub(b as u16) as i128,
                    ("u16", "*") => (a as u16).wrapping_mul(b as u16) as i128,
                    ("i16", "+") => (a as i16).wrapping_add(b as i16) as i128,
                    ("i16", "-") => (a as i16).wrapping_sub(b as i16) as i128,
                    ("i16", "*") => (a as i16).wrapping_mul(b as i16) as i128,
                    ("i16", "neg") => (a as i16).wrapping_neg() as i128,
                    _ => continue,
                };
                if native != expected(&u, a, b) {
                    return Err(format!("r8 oracle: {} {} on ({a}, {b}): {} vs native {native}", u.ty, u.op, expected(&u, a, b)));
                }
            }
        }
    }
    Ok(())
}
