#![allow(dropping_copy_types)]
//! C05 support: boundary-type descriptors (`ty`), the generic route drivers
//! (`routes`), context-field structs (`ctx`) and the small-integer route (`r8`).
//! The generic code here is instantiated in the table crates `c05t*` / `c05k*`.
pub mod align;
pub mod ctx;
pub mod r8;
pub mod routes;
pub mod ty;
