use c00ref::gen_expr::*;
use c00ref::*;
fn main() {
    let t = std::time::Instant::now();
    for size in 1..=4 {
        for nest in 1..=3 {
            let n = bodies(size, nest).len();
            println!("bodies(size={size}, nest={nest}) = {n}  [{:?}]", t.elapsed());
            if n > 2_000_000 { break; }
        }
    }
    let ty = Ty::Int(IntTy::I32);
    for lits in [1, 3, 6] {
        for d in 0..=2 {
            let lv = leaves(&ty, &literals(&ty, lits));
            println!("num_exprs(i32, d={d}, lits={lits}) = {} [{:?}]", num_exprs(&ty, d, &lv).len(), t.elapsed());
        }
    }
    let lv = leaves(&ty, &literals(&ty, 1));
    println!("bool_exprs(0,1) = {}", bool_exprs(&ty, 0, 1, &lv).len());
    println!("bool_exprs(1,0) = {} [{:?}]", bool_exprs(&ty, 1, 0, &lv).len(), t.elapsed());
    let lv = vec![var("a"), var("b")];
    println!("table num = {}, cmp = {}", num_exprs(&ty, 1, &lv).len(), bool_exprs(&ty, 0, 0, &lv).len());
}
