//! C01 — compiled scripts compute the language-defined result.
//!
//! Bounded-exhaustive program enumeration (E-PROG): every program of the
//! families below is compiled through the public pipeline and run on every
//! boundary input vector; result (and host-call log) must equal the reference
//! interpreter `c00ref`. Cases the language leaves open (division by zero,
//! MIN / -1) are skipped and counted.

use c00ref::call::get_fn2;
use c00ref::gen_expr::*;
use c00ref::*;
use vcore::{Cfg, Check, Cx, Finding, Meta, SUB_SETUP, Tier, Value, Violation, json};

const CHUNK: usize = 400;

/// A family of programs with a common signature `fn f(a: T, b: T) -> R`.
#[derive(Clone, Debug)]
pub struct Family {
    pub name: String,
    pub t: Ty,
    pub ret: Ty,
    pub kind: Kind,
}

#[derive(Clone, Debug)]
pub enum Kind {
    /// numeric expressions of depth <= d over {a, b, n_lits literals}
    Num { depth: u32, lits: usize },
    /// comparisons of numeric expressions (depth d_num), combined d_bool levels
    Bools { d_num: u32, d_bool: u32, lits: usize },
    /// `a op L` and `L op a` for a set of literal constants per type (strength
    /// reduction of multiplication / division / remainder by constants)
    ConstOperand,
    /// operand snapshots: `x op { x = b; 1 }` must use the OLD x (all operators)
    Snapshot,
    /// depth-2 numeric expressions with one leaf operand at the root
    NumOneDeep,
    /// comparisons of a depth-1 numeric expression with a leaf
    CmpOneDeep,
    /// depth-1 programs over {a, b} run on ALL operand pairs (8/16-bit truth tables)
    Table,
    /// control-flow skeletons with `size` constructs, nesting <= nest
    Skel { size: usize, nest: usize },
    /// hand-written templates: call shapes, recursion, literal typing contexts
    Templates,
}

pub fn num_tys() -> Vec<Ty> {
    let mut v: Vec<Ty> = INT_TYS.iter().map(|t| Ty::Int(*t)).collect();
    v.push(Ty::F32);
    v.push(Ty::F64);
    v
}

pub fn families(tier: Tier) -> Vec<Family> {
    let mut v = vec![];
    // simplest first: truth tables, literal-rich depth 1, then depth 2, then control flow
    for t in [Ty::Int(IntTy::U8), Ty::Int(IntTy::I8)] {
        v.push(Family { name: format!("table/{}", t.print()), t: t.clone(), ret: t.clone(), kind: Kind::Table });
        v.push(Family { name: format!("table-cmp/{}", t.print()), t: t.clone(), ret: Ty::Bool, kind: Kind::Table });
    }
    if tier == Tier::Thorough {
        for t in [Ty::Int(IntTy::U16), Ty::Int(IntTy::I16)] {
            v.push(Family { name: format!("table-cmp/{}", t.print()), t: t.clone(), ret: Ty::Bool, kind: Kind::Table });
        }
    }
    for t in num_tys() {
        v.push(Family {
            name: format!("num-d1-lits/{}", t.print()),
            t: t.clone(),
            ret: t.clone(),
            kind: Kind::Num { depth: 1, lits: 6 },
        });
    }
    for t in num_tys() {
        v.push(Family {
            name: format!("bool-d0/{}", t.print()),
            t: t.clone(),
            ret: Ty::Bool,
            kind: Kind::Bools { d_num: 0, d_bool: 1, lits: 1 },
        });
    }
    for it in INT_TYS {
        let t = Ty::Int(it);
        v.push(Family { name: format!("const-operand/{}", t.print()), t: t.clone(), ret: t.clone(), kind: Kind::ConstOperand });
        v.push(Family { name: format!("const-operand-cmp/{}", t.print()), t: t.clone(), ret: Ty::Bool, kind: Kind::ConstOperand });
    }
    for t in num_tys() {
        v.push(Family { name: format!("snapshot/{}", t.print()), t: t.clone(), ret: t.clone(), kind: Kind::Snapshot });
        v.push(Family { name: format!("snapshot-cmp/{}", t.print()), t: t.clone(), ret: Ty::Bool, kind: Kind::Snapshot });
    }
    v.push(Family { name: "templates".into(), t: Ty::Int(IntTy::I32), ret: Ty::Int(IntTy::I32), kind: Kind::Templates });
    for t in num_tys() {
        v.push(Family {
            name: format!("num-d2/{}", t.print()),
            t: t.clone(),
            ret: t.clone(),
            kind: match tier {
                Tier::Quick => Kind::NumOneDeep,
                Tier::Thorough => Kind::Num { depth: 2, lits: 1 },
            },
        });
    }
    for t in num_tys() {
        v.push(Family {
            name: format!("cmp-d1/{}", t.print()),
            t: t.clone(),
            ret: Ty::Bool,
            kind: match tier {
                Tier::Quick => Kind::CmpOneDeep,
                Tier::Thorough => Kind::Bools { d_num: 1, d_bool: 0, lits: 1 },
            },
        });
    }
    for size in 1..=tier.pick(3, 4) {
        for it in INT_TYS {

            // quick: every width sees sizes 1-2; size 3 on a rotating pair of widths plus i32
            let t = Ty::Int(it);
            v.push(Family {
                name: format!("skel-{size}/{}", t.print()),
                t: t.clone(),
                ret: t.clone(),
                kind: Kind::Skel { size, nest: if size >= 4 { 2 } else { tier.pick(2, 3) } },
            });
        }
    }
    v
}

/// the programs of a family (deterministic order)
pub fn programs(f: &Family, cfg: &Cfg) -> Vec<Program> {
    let single = |body: E| Program { records: vec![], enums: vec![], funcs: vec![fn2("f", &f.t, &f.ret, body)] };
    match &f.kind {
        Kind::Num { depth, lits } => {
            let lv = leaves(&f.t, &literals(&f.t, *lits));
            num_exprs(&f.t, *depth, &lv).into_iter().map(single).collect()
        }
        Kind::Bools { d_num, d_bool, lits } => {
            let lv = leaves(&f.t, &literals(&f.t, *lits));
            bool_exprs(&f.t, *d_num, *d_bool, &lv).into_iter().map(single).collect()
        }
        Kind::ConstOperand => {
            let Ty::Int(it) = f.t else { unreachable!() };
            let w = it.bits();
            let lim = if w == 64 { i64::MAX as i128 } else { it.max_val() };
            let mut lits: Vec<i128> = vec![0, 1, 2, 3, 4, 5, 6, 7, 8, 9, 10, 12, 15, 16, 17, 25, 31, 32, 33, 60, 63, 64, 100, 127];
            for k in [7u32, 8, 15, 16, 31, 32, 63] {
                if k < w {
                    lits.extend([(1i128 << k) - 1, 1i128 << k, (1i128 << k) + 1]);
                }
            }
            lits.extend([lim, lim - 1, lim / 2, lim / 3, 1000, 10000, 1000000, 1000000007]);
            lits.retain(|x| *x >= 0 && *x <= lim);
            lits.sort();
            lits.dedup();
            let ops: Vec<BinOp> = if f.ret == Ty::Bool { CMP.to_vec() } else { ARITH.to_vec() };
            let mut out = vec![];
            for op in ops {
                for l in &lits {
                    // suffixed, so that the literal's type never depends on inference
                    let lit = E::Int(*l, Some(it), it);
                    out.push(single(bin(op, var("a"), lit.clone())));
                    out.push(single(bin(op, lit.clone(), var("a"))));
                    if it.signed() && *l > 0 {
                        out.push(single(bin(op, var("a"), E::Neg(Box::new(lit.clone())))));
                    }
                }
            }
            out
        }
        Kind::Snapshot => {
            let one = literals(&f.t, 1)[0].clone();
            let ops: Vec<BinOp> = if f.ret == Ty::Bool {
                CMP.to_vec()
            } else if f.t.is_float() {
                vec![BinOp::Add, BinOp::Sub, BinOp::Mul, BinOp::Div]
            } else {
                ARITH.to_vec()
            };
            let mut out = vec![];
            for op in ops {
                // the right operand reassigns the variable the left operand reads
                let rhs = |v: &str| E::Block(blk(vec![S::Expr(E::Assign(vec![v.into()], Box::new(var("b"))))], Some(one.clone())));
                // (1) local variable
                let body = blk(vec![S::Let("x".into(), Some(f.t.clone()), var("a"))], Some(bin(op, var("x"), rhs("x"))));
                out.push(Program { records: vec![], enums: vec![], funcs: vec![Func { name: "f".into(), params: vec![("a".into(), f.t.clone()), ("b".into(), f.t.clone())], ret: f.ret.clone(), body, filtermap: false }] });
                // (2) parameter
                out.push(single(bin(op, var("a"), rhs("a"))));
                // (3) both operands are blocks, the left one reads, the right one writes
                let lhs = E::Block(blk(vec![], Some(var("a"))));
                out.push(single(bin(op, lhs, rhs("a"))));
                // (4) compound assignment
                if f.ret != Ty::Bool {
                    let body = blk(
                        vec![
                            S::Let("x".into(), Some(f.t.clone()), var("a")),
                            S::Expr(E::Compound(vec!["x".into()], op, Box::new(rhs("x")))),
                        ],
                        Some(var("x")),
                    );
                    out.push(Program { records: vec![], enums: vec![], funcs: vec![Func { name: "f".into(), params: vec![("a".into(), f.t.clone()), ("b".into(), f.t.clone())], ret: f.ret.clone(), body, filtermap: false }] });
                }
            }
            out
        }
        Kind::NumOneDeep => {
            let lv = leaves(&f.t, &literals(&f.t, 1));
            num_exprs_one_deep(&f.t, &lv).into_iter().map(single).collect()
        }
        Kind::CmpOneDeep => {
            let lv = leaves(&f.t, &literals(&f.t, 1));
            cmp_exprs_one_deep(&f.t, &lv).into_iter().map(single).collect()
        }
        Kind::Table => {
            let lv = vec![var("a"), var("b")];
            let es = if f.ret == Ty::Bool { bool_exprs(&f.t, 0, 0, &lv) } else { num_exprs(&f.t, 1, &lv) };
            es.into_iter().map(single).collect()
        }
        Kind::Skel { .. } => {
            let Ty::Int(it) = f.t else { unreachable!() };
            skel_bodies(f, cfg).iter().map(|b| skeleton_program(it, b)).collect()
        }
        Kind::Templates => vec![Program::default(); templates::all().len()],
    }
}

/// the skeletons of a `Skel` family (a skeleton is a few hundred bytes, its
/// program 20 KB: the largest family has 888 246 of them, so programs are
/// expanded per chunk, see `family_slice`)
pub fn skel_bodies(f: &Family, cfg: &Cfg) -> Vec<Vec<Node>> {
    let (Kind::Skel { size, nest }, Ty::Int(it)) = (&f.kind, &f.t) else { unreachable!() };
    let all = bodies(*size, *nest);
    // the largest size of a tier is split over the 8 widths (each body runs on
    // the width picked by its index + seed; i32 sees all of them)
    if *size >= cfg.tier.pick(3, 4) && *it != IntTy::I32 {
        let my = INT_TYS.iter().position(|x| x == it).unwrap();
        all.into_iter()
            .enumerate()
            .filter(|(i, _)| (i + cfg.seed as usize) % INT_TYS.len() == my)
            .map(|(_, b)| b)
            .collect()
    } else {
        all
    }
}

/// number of programs of a family without expanding the skeleton families
pub fn family_len(f: &Family, cfg: &Cfg) -> usize {
    match f.kind {
        Kind::Skel { .. } => skel_bodies(f, cfg).len(),
        _ => programs(f, cfg).len(),
    }
}

pub mod templates;

pub fn family_inputs(f: &Family, tier: Tier) -> Vec<(V, V)> {
    if let (Kind::ConstOperand, Ty::Int(it)) = (&f.kind, &f.t) {
        let mut vals: Vec<i128> = if it.bits() == 8 {
            (it.min_val()..=it.max_val()).collect()
        } else {
            let mut v = it.boundary();
            for k in [1i128, 3, 5, 7, 9, 10, 11, 15, 16, 17, 99, 100, 101, 127, 128, 129, 255, 256, 257, 999, 1000, 1001, 65535, 65536, 65537, 1000000006, 1000000007, 1000000008] {
                for x in [k, -k] {
                    if x >= it.min_val() && x <= it.max_val() {
                        v.push(x);
                    }
                }
            }
            v
        };
        vals.sort();
        vals.dedup();
        return vals.into_iter().map(|a| (V::Int(*it, a), V::Int(*it, 1))).collect();
    }
    if let (Kind::Table, Ty::Int(it)) = (&f.kind, &f.t) {
        if it.bits() == 16 {
            // the full 2^32 square is out of reach: every value of one operand against
            // seven pivots of the other, both ways (917 490 pairs; the input index of a
            // case has 20 bits)
            let pivots: Vec<i128> = if it.signed() {
                vec![it.min_val(), -1, 0, 1, 255, 256, it.max_val()]
            } else {
                vec![0, 1, 255, 256, 32767, 32768, it.max_val()]
            };
            let mut out = Vec::with_capacity(2 * 7 * 65536);
            for a in it.min_val()..=it.max_val() {
                for &b in &pivots {
                    out.push((V::Int(*it, a), V::Int(*it, b)));
                }
            }
            for &a in &pivots {
                for b in it.min_val()..=it.max_val() {
                    if !pivots.contains(&b) {
                        out.push((V::Int(*it, a), V::Int(*it, b)));
                    }
                }
            }
            return out;
        }
    }
    let one: Vec<V> = match (&f.kind, &f.t) {
        (Kind::Table, Ty::Int(it)) => (it.min_val()..=it.max_val()).map(|v| V::Int(*it, v)).collect(),
        (Kind::Skel { .. }, Ty::Int(it)) => {
            // control flow is steered by comparisons of a and b and by b % 3
            let mut v: Vec<i128> = vec![0, 1, 2, 3, 4, 5, it.max_val(), it.max_val() - 1, it.min_val(), it.min_val() + 1];
            if it.signed() {
                v.extend([-1, -2, -3]);
            }
            v.sort();
            v.dedup();
            v.into_iter().map(|x| V::Int(*it, x)).collect()
        }
        _ => inputs(&f.t),
    };
    let _ = tier;
    let mut out = vec![];
    for a in &one {
        for b in &one {
            out.push((a.clone(), b.clone()));
        }
    }
    out
}

/// The unit table needs the size of every family, i.e. every family generated once
/// (thorough: 40 s and gigabytes). The parent does that in `preflight`, writes the
/// table to a file and names it in `C01_UNIT_TABLE`; workers (which inherit the
/// environment) read it.
fn unit_table(cfg: &Cfg) -> &'static Vec<(usize, usize)> {
    static TABLE: std::sync::OnceLock<Vec<(usize, usize)>> = std::sync::OnceLock::new();
    TABLE.get_or_init(|| {
        if let Ok(path) = std::env::var("C01_UNIT_TABLE") {
            if let Some(t) = read_unit_table(&path, cfg) {
                return t;
            }
        }
        unit_table_compute(cfg)
    })
}

fn read_unit_table(path: &str, cfg: &Cfg) -> Option<Vec<(usize, usize)>> {
    let v: Value = vcore::serde_json::from_str(&std::fs::read_to_string(path).ok()?).ok()?;
    if v["tier"] != cfg.tier.name() || v["seed"] != cfg.seed {
        return None;
    }
    // (family index, number of chunks)
    let mut t = vec![];
    for e in v["chunks_per_family"].as_array()? {
        let (fi, n) = (e[0].as_u64()? as usize, e[1].as_u64()? as usize);
        t.extend((0..n).map(|c| (fi, c)));
    }
    Some(t)
}

fn write_unit_table(cfg: &Cfg) -> Result<(), String> {
    let t = unit_table(cfg);
    let mut per: Vec<(usize, usize)> = vec![];
    for &(fi, c) in t {
        match per.last_mut() {
            Some((f, n)) if *f == fi => *n = c + 1,
            _ => per.push((fi, c + 1)),
        }
    }
    let dir = std::path::Path::new("/verif/work/c01");
    std::fs::create_dir_all(dir).map_err(|e| e.to_string())?;
    let path = dir.join(format!("units-{}-{}.json", cfg.tier.name(), std::process::id()));
    let v = json!({"tier": cfg.tier.name(), "seed": cfg.seed, "chunks_per_family": per});
    std::fs::write(&path, v.to_string()).map_err(|e| e.to_string())?;
    // SAFETY: single-threaded at this point (before the pool is started)
    unsafe { std::env::set_var("C01_UNIT_TABLE", &path) };
    Ok(())
}

enum Cached {
    Progs(std::rc::Rc<Vec<Program>>),
    Skel(IntTy, std::rc::Rc<Vec<Vec<Node>>>),
}

thread_local! {
    static LAST: std::cell::RefCell<Option<(usize, Cached)>> = const { std::cell::RefCell::new(None) };
}

/// programs `lo..hi` (clamped) of family `fi`; the family is cached (consecutive
/// units mostly share it), skeleton families as skeletons
fn family_slice(fi: usize, cfg: &Cfg, lo: usize, hi: usize) -> Vec<Program> {
    LAST.with(|l| {
        let mut l = l.borrow_mut();
        if !matches!(&*l, Some((i, _)) if *i == fi) {
            // drop the previous family first, and give the pages back
            *l = None;
            let f = &families(cfg.tier)[fi];
            let c = match (&f.kind, &f.t) {
                (Kind::Skel { .. }, Ty::Int(it)) => Cached::Skel(*it, std::rc::Rc::new(skel_bodies(f, cfg))),
                _ => Cached::Progs(std::rc::Rc::new(programs(f, cfg))),
            };
            unsafe { libc::malloc_trim(0) };
            *l = Some((fi, c));
        }
        match &l.as_ref().unwrap().1 {
            Cached::Progs(p) => p[lo.min(p.len())..hi.min(p.len())].to_vec(),
            Cached::Skel(it, b) => b[lo.min(b.len())..hi.min(b.len())].iter().map(|b| skeleton_program(*it, b)).collect(),
        }
    })
}

fn unit_table_compute(cfg: &Cfg) -> Vec<(usize, usize)> {
    // (family index, chunk index)
    let fams = families(cfg.tier);
    let mut v = vec![];
    for (fi, f) in fams.iter().enumerate() {
        let n = family_len(f, cfg);
        unsafe { libc::malloc_trim(0) };
        let chunk = chunk_of(f);
        for c in 0..n.div_ceil(chunk) {
            v.push((fi, c));
        }
    }
    v
}

pub fn chunk_of(f: &Family) -> usize {
    match f.kind {
        Kind::Table => 4,
        Kind::Templates => 64,
        _ => CHUNK,
    }
}

fn run_chunk(f: &Family, progs: &[Program], base: usize, cx: &mut Cx) {
    if !cx.case(SUB_SETUP) {
        return;
    }
    let rt = host::runtime();
    // one package for the whole chunk; helpers (if any) are shared by name
    let mut text = String::new();
    let mut helper_done = false;
    for (i, p) in progs.iter().enumerate() {
        let q = rename_main(p, &format!("p{i}_"));
        for func in &q.funcs {
            let is_helper = !func.name.starts_with(&format!("p{i}_"));
            if is_helper {
                if helper_done {
                    continue;
                }
            }
            text.push_str(&print_func(func));
        }
        if q.funcs.len() > 1 {
            helper_done = true;
        }
        if i == 0 {
            for r in &q.records {
                let _ = r;
            }
        }
    }
    let mut pkg = match host::compile(&rt, &text) {
        Ok(p) => Some(p),
        Err(_) => None,
    };
    let inputs = family_inputs(f, cx.cfg.tier);
    for (i, p) in progs.iter().enumerate() {
        let src = print_program(p);
        // batch failed: compile this program alone to find the culprit
        let mut single;
        let (pk, fname) = match pkg.as_mut() {
            Some(pk) => (pk, format!("p{i}_f")),
            None => {
                if !cx.case(((i as u64) << 20) | 0xFFFFF) {
                    continue;
                }
                match host::compile(&rt, &src) {
                    Ok(p1) => {
                        single = p1;
                        (&mut single, "f".to_string())
                    }
                    Err(e) => {
                        cx.violation(
                            match e {
                                host::CompileFail::Panic(_) => "compile-panic",
                                host::CompileFail::Report(_) => "rejected",
                            },
                            (i as u64) << 20,
                            json!({"family": f.name, "program": src, "index": base + i}),
                            json!("a well-typed program compiles"),
                            json!(format!("{e:?}")),
                        );
                        continue;
                    }
                }
            }
        };
        let func = match get_fn2(pk, &fname, &f.t, &f.ret) {
            Ok(func) => func,
            Err(e) => {
                cx.violation("get_function", (i as u64) << 20, json!({"family": f.name, "program": src}), json!("Ok"), json!(e));
                continue;
            }
        };
        cx.states(1);
        let mut distinct = std::collections::HashSet::new();
        let mut reported = false;
        for (k, (a, b)) in inputs.iter().enumerate() {
            let expect = eval_fn(p, "f", &[a.clone(), b.clone()]);
            let expect = match expect {
                Ok(o) => o,
                Err(Stop::Unspecified(_)) | Err(Stop::Fuel) => {
                    cx.unspecified(1);
                    continue;
                }
                Err(Stop::Stuck(m)) => {
                    if !reported {
                        cx.violation("model-stuck", (i as u64) << 20, json!({"family": f.name, "program": src}), json!("model evaluates"), json!(m));
                        reported = true;
                    }
                    continue;
                }
                Err(Stop::Return(_)) => unreachable!(),
            };
            let sub = ((i as u64) << 20) | k as u64;
            if !cx.case(sub) {
                continue;
            }
            host::clear_log();
            let got = func(a, b);
            let log = host::take_log();
            cx.transitions(1);
            cx.validated(1);
            distinct.insert(got.show());
            if (!got.obs_eq(&expect.value) || log != expect.log) && !reported {
                reported = true;
                cx.violation(
                    "mismatch",
                    sub,
                    json!({"family": f.name, "program": src, "a": a.show(), "b": b.show(), "index": base + i}),
                    json!({"value": expect.value.show(), "log": format!("{:?}", expect.log)}),
                    json!({"value": got.show(), "log": format!("{log:?}")}),
                );
            }
        }
        if distinct.len() > 1 {
            cx.nontrivial(vcore::util::fnv_str(&src));
        }
        let mut h = vcore::util::fnv_str(&f.t.print());
        let mut ds: Vec<_> = distinct.into_iter().collect();
        ds.sort();
        for d in ds.iter().take(8) {
            h = vcore::util::mix(h, vcore::util::fnv_str(d));
        }
        cx.outcome(h);
        if i == 0 {
            cx.sample(json!({"family": f.name, "program": src, "input_vectors": inputs.len()}));
        }
    }
}

pub fn template_inputs() -> Vec<i32> {
    vec![i32::MIN, i32::MIN + 1, -9, -8, -7, -3, -2, -1, 0, 1, 2, 3, 4, 5, 6, 7, 8, 9, 10, 65535, 65536, i32::MAX - 1, i32::MAX]
}

fn run_templates(lo: usize, hi: usize, cx: &mut Cx) {
    if !cx.case(SUB_SETUP) {
        return;
    }
    let rt = host::runtime();
    let ts = templates::all();
    let ins = template_inputs();
    for i in lo..hi {
        let t = &ts[i];
        let li = (i - lo) as u64;
        if !cx.case((li << 20) | 0xFFFFF) {
            continue;
        }
        let mut pkg = match host::compile(&rt, &t.src) {
            Ok(p) => p,
            Err(e) => {
                cx.violation(
                    match e {
                        host::CompileFail::Panic(_) => "compile-panic",
                        host::CompileFail::Report(_) => "rejected",
                    },
                    li << 20,
                    json!({"family": "templates", "template": t.name, "program": t.src}),
                    json!("a well-typed program compiles"),
                    json!(format!("{e:?}")),
                );
                continue;
            }
        };
        let f: roto::TypedFunc<roto::NoCtx, fn(i32, i32) -> i32> = match pkg.get_function("f") {
            Ok(f) => f,
            Err(e) => {
                cx.violation("get_function", li << 20, json!({"template": t.name, "program": t.src}), json!("Ok"), json!(e.to_string()));
                continue;
            }
        };
        cx.states(1);
        let mut distinct = std::collections::HashSet::new();
        let mut reported = false;
        for (ka, a) in ins.iter().enumerate() {
            for (kb, b) in ins.iter().enumerate() {
                let Some(want) = (t.expect)(*a, *b) else {
                    cx.unspecified(1);
                    continue;
                };
                let sub = (li << 20) | (ka * ins.len() + kb) as u64;
                if !cx.case(sub) {
                    continue;
                }
                let got = f.call(*a, *b);
                cx.transitions(1);
                cx.validated(1);
                distinct.insert(got);
                if got != want && !reported {
                    reported = true;
                    cx.violation(
                        "mismatch",
                        sub,
                        json!({"family": "templates", "template": t.name, "program": t.src, "a": a, "b": b}),
                        json!(want),
                        json!(got),
                    );
                }
            }
        }
        if distinct.len() > 1 {
            cx.nontrivial(vcore::util::fnv_str(&t.src));
        }
        cx.outcome(vcore::util::mix(vcore::util::fnv_str(&t.name), distinct.len() as u64));
        if i == lo {
            cx.sample(json!({"family": "templates", "template": t.name, "program": t.src}));
        }
    }
}

/// prefix only the entry function `f` (helpers keep their names and are
/// shared by all programs of a package; they are identical for one family)
pub fn rename_main(p: &Program, prefix: &str) -> Program {
    rename_only(p, &["f".to_string()], prefix)
}

struct C01;

impl Check for C01 {
    fn id(&self) -> &'static str {
        "C01"
    }
    fn units(&self, cfg: &Cfg) -> usize {
        unit_table(cfg).len()
    }
    fn preflight(&self, cfg: &Cfg) -> Result<(), String> {
        write_unit_table(cfg)
    }
    fn finish(&self, _cfg: &Cfg, _agg: &mut vcore::Aggregate) {
        if let Ok(p) = std::env::var("C01_UNIT_TABLE") {
            let _ = std::fs::remove_file(p);
        }
    }
    fn max_deaths_per_unit(&self, _cfg: &Cfg) -> u32 {
        // a well-typed generated program must never kill the process: a few
        // deaths are enough evidence, re-running the unit after each is wasted
        20
    }
    fn case_timeout_s(&self, cfg: &Cfg) -> f64 {
        cfg.tier.pick(60.0, 300.0)
    }
    fn run_unit(&self, unit: usize, cx: &mut Cx) {
        cx.case(SUB_SETUP);
        let (fi, c) = unit_table(&cx.cfg)[unit];
        let f = families(cx.cfg.tier)[fi].clone();
        let chunk = chunk_of(&f);
        let lo = c * chunk;
        if let Kind::Templates = f.kind {
            run_templates(lo, (lo + chunk).min(templates::all().len()), cx);
            return;
        }
        let progs = family_slice(fi, &cx.cfg, lo, lo + chunk);
        run_chunk(&f, &progs, lo, cx);
    }
    fn describe(&self, cfg: &Cfg, unit: usize, sub: u64) -> Value {
        let (fi, c) = unit_table(cfg)[unit];
        let f = families(cfg.tier)[fi].clone();
        let chunk = chunk_of(&f);
        if sub == SUB_SETUP {
            return json!({"family": f.name, "chunk": c, "phase": "batch compile"});
        }
        let i = c * chunk + (sub >> 20) as usize;
        let k = (sub & 0xFFFFF) as usize;
        if let Kind::Templates = f.kind {
            let ts = templates::all();
            return json!({"family": "templates", "template": ts.get(i).map(|t| t.name.clone()),
                          "program": ts.get(i).map(|t| t.src.clone()), "input_index": k});
        }
        let inputs = family_inputs(&f, cfg.tier);
        let (a, b) = inputs.get(k).map(|(a, b)| (a.show(), b.show())).unwrap_or_default();
        let prog = family_slice(fi, cfg, i, i + 1);
        json!({"family": f.name, "program": prog.first().map(print_program), "a": a, "b": b, "index": i})
    }
    fn matches(&self, _f: &Finding, _v: &Violation) -> bool {
        false
    }
    fn meta(&self, cfg: &Cfg) -> Meta {
        let fams = families(cfg.tier);
        Meta {
            rule: "all programs of each family (numeric expressions over all operators to depth 2, comparison/logic expressions, complete 8-bit truth tables, control-flow skeletons of all constructs up to the size bound, call/recursion/literal-typing templates) x the boundary input cross product; non-trivial = a program whose result differs between at least two input vectors".into(),
            assumptions: vec![
                "x86-64 Cranelift backend".into(),
                "reference interpreter c00ref (wrapping two's-complement, IEEE-754, left-to-right, short-circuit)".into(),
            ],
            bounds: json!({"families": fams.iter().map(|f| f.name.clone()).collect::<Vec<_>>()}),
            states_are: "distinct generated programs".into(),
            transitions_are: "calls of a compiled program on one input vector, each compared with the reference".into(),
        }
    }
}

pub fn print_counts(thorough: bool) {
    let cfg = Cfg { tier: if thorough { Tier::Thorough } else { Tier::Quick }, seed: 0 };
    let mut total = 0usize;
    let only = std::env::var("C01_ONLY").ok();
    for f in families(cfg.tier) {
        if only.as_ref().is_some_and(|o| !f.name.starts_with(o.as_str())) {
            continue;
        }
        let t = std::time::Instant::now();
        let n = family_len(&f, &cfg);
        unsafe { libc::malloc_trim(0) };
        total += n;
        println!("{:28} programs={:9} inputs={:5} gen={:?}", f.name, n, family_inputs(&f, cfg.tier).len(), t.elapsed());
    }
    println!("total programs {total}");
}

pub fn run() -> ! {
    vcore::main(&C01)
}
