//! Hand-enumerated template programs for the parts of C01 that the expression
//! and skeleton grammars do not produce: call shapes (arity 0..7, argument
//! permutations over distinct types), self and mutual recursion, and every
//! context that fixes the type of an unsuffixed literal x every numeric type.
//!
//! Every template has the entry `fn f(a: i32, b: i32) -> i32`; the reference
//! is a plain Rust closure written from the language definition.

pub struct Template {
    pub name: String,
    pub src: String,
    /// None = the language leaves this input unspecified
    pub expect: Box<dyn Fn(i32, i32) -> Option<i32>>,
}

fn t(name: impl Into<String>, src: impl Into<String>, expect: impl Fn(i32, i32) -> Option<i32> + 'static) -> Template {
    Template { name: name.into(), src: src.into(), expect: Box::new(expect) }
}

const INT: [(&str, u32, bool); 8] = [
    ("u8", 8, false),
    ("i8", 8, true),
    ("u16", 16, false),
    ("i16", 16, true),
    ("u32", 32, false),
    ("i32", 32, true),
    ("u64", 64, false),
    ("i64", 64, true),
];

pub fn all() -> Vec<Template> {
    let mut v = vec![];

    // ---- arity 0..7, distinct weights per position (an argument-order or
    // register-assignment slip changes the result)
    let w = [3i32, 5, 7, 11, 13, 17, 19];
    for n in 0..=7usize {
        let params: Vec<String> = (0..n).map(|i| format!("x{i}: i32")).collect();
        let body: String = if n == 0 {
            "42".into()
        } else {
            (0..n).map(|i| format!("x{i} * {}", w[i])).collect::<Vec<_>>().join(" + ")
        };
        // arguments: a, b, 1, 2, a, b, 3 (prefix of length n)
        let args_src = ["a", "b", "1", "2", "a", "b", "3"];
        let args: Vec<&str> = args_src[..n].to_vec();
        let src = format!(
            "fn k({}) -> i32 {{ {body} }}\nfn f(a: i32, b: i32) -> i32 {{ k({}) }}\n",
            params.join(", "),
            args.join(", ")
        );
        v.push(t(format!("arity-{n}"), src, move |a, b| {
            let vals = [a, b, 1, 2, a, b, 3];
            if n == 0 {
                return Some(42);
            }
            let mut r = 0i32;
            for i in 0..n {
                r = r.wrapping_add(vals[i].wrapping_mul(w[i]));
            }
            Some(r)
        }));
    }

    // ---- all 6 orders of three distinctly typed parameters (u8, i64, bool)
    let perms: [[usize; 3]; 6] = [[0, 1, 2], [0, 2, 1], [1, 0, 2], [1, 2, 0], [2, 0, 1], [2, 1, 0]];
    let decl = ["x: u8", "y: i64", "z: bool"];
    let argv = ["200u8", "5000000000", "a < b"];
    for p in perms {
        let params: Vec<&str> = p.iter().map(|i| decl[*i]).collect();
        let args: Vec<&str> = p.iter().map(|i| argv[*i]).collect();
        let src = format!(
            "fn p({}) -> i64 {{ if z {{ y + 1 }} else if x == 200 {{ y - 1 }} else {{ 0 }} }}\n\
             fn f(a: i32, b: i32) -> i32 {{ let r = p({}); if r == 5000000001 {{ 1 }} else if r == 4999999999 {{ 2 }} else {{ 3 }} }}\n",
            params.join(", "),
            args.join(", ")
        );
        v.push(t(format!("perm-{p:?}"), src, |a, b| Some(if a < b { 1 } else { 2 })));
    }
    // ---- mixed widths in one call: every int type as one of 7 parameters
    {
        let src = "fn m(a1: u8, a2: i16, a3: u32, a4: i64, a5: i8, a6: u16, a7: u64) -> bool {\n\
                   a1 == 255 && a2 == 0 - 32768 && a3 == 4000000000 && a4 == 0 - 5 && a5 == 0 - 128 && a6 == 65535 && a7 == 9000000000000000000\n}\n\
                   fn f(a: i32, b: i32) -> i32 { if m(255, 0 - 32768, 4000000000, 0 - 5, 0 - 128, 65535, 9000000000000000000) { a } else { b } }\n";
        v.push(t("mixed-widths-7", src, |a, _| Some(a)));
    }

    // ---- self recursion
    v.push(t(
        "fact",
        "fn fact(n: i32) -> i32 { if n <= 1 { 1 } else { n * fact(n - 1) } }\nfn f(a: i32, b: i32) -> i32 { fact(b % 8) + a }\n",
        |a, b| {
            fn fact(n: i32) -> i32 {
                if n <= 1 { 1 } else { n.wrapping_mul(fact(n - 1)) }
            }
            Some(fact(b.wrapping_rem(8)).wrapping_add(a))
        },
    ));
    v.push(t(
        "fib",
        "fn fib(n: i32) -> i32 { if n < 2 { n } else { fib(n - 1) + fib(n - 2) } }\nfn f(a: i32, b: i32) -> i32 { fib(b % 10) - a }\n",
        |a, b| {
            fn fib(n: i32) -> i32 {
                if n < 2 { n } else { fib(n - 1).wrapping_add(fib(n - 2)) }
            }
            Some(fib(b.wrapping_rem(10)).wrapping_sub(a))
        },
    ));
    v.push(t(
        "sum-acc",
        "fn go(n: i32, acc: i32) -> i32 { if n <= 0 { return acc; } go(n - 1, acc * 31 + n) }\nfn f(a: i32, b: i32) -> i32 { go(b % 5, a) }\n",
        |a, b| {
            fn go(n: i32, acc: i32) -> i32 {
                if n <= 0 { acc } else { go(n - 1, acc.wrapping_mul(31).wrapping_add(n)) }
            }
            Some(go(b.wrapping_rem(5), a))
        },
    ));
    // ---- mutual recursion of 2 and 3 functions
    v.push(t(
        "even-odd",
        "fn even(n: i32) -> bool { if n == 0 { true } else { odd(n - 1) } }\nfn odd(n: i32) -> bool { if n == 0 { false } else { even(n - 1) } }\n\
         fn f(a: i32, b: i32) -> i32 { let n = b % 7; if n < 0 { return a; } if even(n) { 1 } else { 0 } }\n",
        |a, b| {
            let n = b.wrapping_rem(7);
            if n < 0 { Some(a) } else { Some(if n % 2 == 0 { 1 } else { 0 }) }
        },
    ));
    v.push(t(
        "three-cycle",
        "fn r0(n: i32, x: i32) -> i32 { if n <= 0 { x } else { r1(n - 1, x * 2 + 1) } }\n\
         fn r1(n: i32, x: i32) -> i32 { if n <= 0 { x + 100 } else { r2(n - 1, x * 3 + 2) } }\n\
         fn r2(n: i32, x: i32) -> i32 { if n <= 0 { x + 200 } else { r0(n - 1, x * 5 + 3) } }\n\
         fn f(a: i32, b: i32) -> i32 { r0(b % 7, a) }\n",
        |a, b| {
            fn r(k: u8, n: i32, x: i32) -> i32 {
                match k {
                    0 => {
                        if n <= 0 { x } else { r(1, n - 1, x.wrapping_mul(2).wrapping_add(1)) }
                    }
                    1 => {
                        if n <= 0 { x.wrapping_add(100) } else { r(2, n - 1, x.wrapping_mul(3).wrapping_add(2)) }
                    }
                    _ => {
                        if n <= 0 { x.wrapping_add(200) } else { r(0, n - 1, x.wrapping_mul(5).wrapping_add(3)) }
                    }
                }
            }
            Some(r(0, b.wrapping_rem(7), a))
        },
    ));
    v.push(t(
        "ackermann-bounded",
        "fn ack(m: i32, n: i32) -> i32 { if m == 0 { n + 1 } else if n == 0 { ack(m - 1, 1) } else { ack(m - 1, ack(m, n - 1)) } }\n\
         fn f(a: i32, b: i32) -> i32 { let m = a % 3; let n = b % 3; if m < 0 || n < 0 { return 0 - 1; } ack(m, n) }\n",
        |a, b| {
            fn ack(m: i32, n: i32) -> i32 {
                if m == 0 { n + 1 } else if n == 0 { ack(m - 1, 1) } else { ack(m - 1, ack(m, n - 1)) }
            }
            let (m, n) = (a.wrapping_rem(3), b.wrapping_rem(3));
            if m < 0 || n < 0 { Some(-1) } else { Some(ack(m, n)) }
        },
    ));
    // ---- functions declared after use, nested calls as arguments
    v.push(t(
        "declared-later-nested-args",
        "fn f(a: i32, b: i32) -> i32 { sub(sub(a, b), sub(b, a)) }\nfn sub(x: i32, y: i32) -> i32 { x - y }\n",
        |a, b| Some(a.wrapping_sub(b).wrapping_sub(b.wrapping_sub(a))),
    ));

    // ---- literal typing: every context x every integer type. The literal
    // MAX of the type plus one wraps to MIN exactly when the literal (and the
    // arithmetic) got the context's type.
    for (ty, bits, signed) in INT {
        let max: i128 = if signed { (1i128 << (bits - 1)) - 1 } else { (1i128 << bits) - 1 };
        // literals must fit in i64
        let max = if bits == 64 && !signed { i64::MAX as i128 } else { max };
        let wraps_to = if bits == 64 && !signed {
            // u64: i64::MAX + 1 does not wrap; compare with the exact successor instead
            format!("x + 1 == 9223372036854775807 + 1 && x + 1 > x")
        } else if signed {
            "x + 1 < x".to_string()
        } else {
            "x + 1 == 0".to_string()
        };
        let ctxs: Vec<(&str, String)> = vec![
            ("let-annotation", format!("fn f(a: i32, b: i32) -> i32 {{ let x: {ty} = {max}; if {wraps_to} {{ a }} else {{ b }} }}\n")),
            (
                "parameter",
                format!("fn id(x: {ty}) -> bool {{ {wraps_to} }}\nfn f(a: i32, b: i32) -> i32 {{ if id({max}) {{ a }} else {{ b }} }}\n"),
            ),
            (
                "return",
                format!("fn mk() -> {ty} {{ {max} }}\nfn f(a: i32, b: i32) -> i32 {{ let x = mk(); if {wraps_to} {{ a }} else {{ b }} }}\n"),
            ),
            (
                "operand-partner",
                format!("fn one() -> {ty} {{ 1 }}\nfn f(a: i32, b: i32) -> i32 {{ let x = ({max} - 1) + one(); if {wraps_to} {{ a }} else {{ b }} }}\n"),
            ),
            (
                "record-field",
                format!("record R {{ v: {ty} }}\nfn f(a: i32, b: i32) -> i32 {{ let r = R {{ v: {max} }}; let x = r.v; if {wraps_to} {{ a }} else {{ b }} }}\n"),
            ),
            (
                "list-element",
                format!("fn f(a: i32, b: i32) -> i32 {{ let l: List[{ty}] = [{max}]; match l.get(0) {{ Some(x) => {{ if {wraps_to} {{ a }} else {{ b }} }}, None => {{ 0 }} }} }}\n"),
            ),
            (
                "suffix",
                format!("fn f(a: i32, b: i32) -> i32 {{ let x = {max}{ty}; if {wraps_to} {{ a }} else {{ b }} }}\n"),
            ),
            (
                "compound-assign",
                format!("fn f(a: i32, b: i32) -> i32 {{ let x: {ty} = 0; x += {max}; if {wraps_to} {{ a }} else {{ b }} }}\n"),
            ),
        ];
        for (cname, src) in ctxs {
            v.push(t(format!("literal-{cname}/{ty}"), src, |a, _| Some(a)));
        }
    }
    // ---- unconstrained defaults: integer literals are i32, float literals f64
    v.push(t(
        "literal-default-i32",
        "fn f(a: i32, b: i32) -> i32 { let x = 2147483647; if x + 1 < x { a } else { b } }\n",
        |a, _| Some(a),
    ));
    v.push(t(
        "literal-default-f64",
        // 16777217 is not representable in f32: equal to 16777216 there, different in f64
        "fn f(a: i32, b: i32) -> i32 { let y = 16777217.0; if y == 16777216.0 { b } else { a } }\n",
        |a, _| Some(a),
    ));
    for (fty, same) in [("f32", true), ("f64", false)] {
        let src = format!(
            "fn f(a: i32, b: i32) -> i32 {{ let y: {fty} = 16777217.0; if y == 16777216.0 {{ b }} else {{ a }} }}\n"
        );
        v.push(t(format!("literal-let-annotation/{fty}"), src, move |a, b| Some(if same { b } else { a })));
        let src = format!(
            "fn f(a: i32, b: i32) -> i32 {{ let y = 16777217.0{fty}; if y == 16777216.0 {{ b }} else {{ a }} }}\n"
        );
        v.push(t(format!("literal-suffix/{fty}"), src, move |a, b| Some(if same { b } else { a })));
    }
    // ---- char and bool round trips through control flow
    v.push(t(
        "char-compare",
        "fn pick(c: bool) -> char { if c { 'é' } else { '\\u{10FFFF}' } }\nfn f(a: i32, b: i32) -> i32 { if pick(a < b) == 'é' { 1 } else if pick(a < b) == '\\u{10FFFF}' { 2 } else { 3 } }\n",
        |a, b| Some(if a < b { 1 } else { 2 }),
    ));
    // ---- arguments passed on the stack (System V: beyond 6 integer and 8 float
    // registers): arity 8..16 with distinct weights per position, all-integer,
    // all-float and interleaved; and selection of the k-th of 12 parameters
    let wts = [3i64, 5, 7, 11, 13, 17, 19, 23, 29, 31, 37, 41, 43, 47, 53, 59];
    for n in [8usize, 9, 12, 16] {
        for (kind, ty) in [("i64", "i64"), ("i32", "i32"), ("u8", "u8"), ("f64", "f64"), ("f32", "f32")] {
            let float = ty.starts_with('f');
            let params: Vec<String> = (0..n).map(|i| format!("x{i}: {ty}")).collect();
            // arguments: small values derived from position so that u8 does not overflow in the sum
            let lit = |i: usize| if float { format!("{}.0", i % 5 + 1) } else { format!("{}", i % 5 + 1) };
            let args: Vec<String> = (0..n).map(lit).collect();
            // the callee compares every parameter with its own expected literal: a swapped,
            // truncated or stale stack slot makes exactly that comparison fail
            let checks: String = (0..n).map(|i| format!("if x{i} != {} {{ bad = bad + {}; }} ", lit(i), wts[i] % 7 + 1)).collect();
            let src = format!(
                "fn k({}) -> i32 {{ let bad = 0; {checks}bad }}
fn f(a: i32, b: i32) -> i32 {{ k({}) + a - b }}
",
                params.join(", "),
                args.join(", ")
            );
            v.push(t(format!("stack-args-{kind}-{n}"), src, |a, b| Some(a.wrapping_sub(b))));
        }
        // interleaved types, values at the boundaries of each width
        let tys = ["u8", "f64", "i16", "bool", "u32", "f32", "i64", "i8", "u16", "u64", "i32"];
        let vals = ["255", "2.5", "0 - 32768", "true", "4000000000", "0.25", "0 - 9000000000", "0 - 128", "65535", "9000000000000000000", "0 - 2147483647"];
        let params: Vec<String> = (0..n).map(|i| format!("x{i}: {}", tys[i % tys.len()])).collect();
        let args: Vec<&str> = (0..n).map(|i| vals[i % vals.len()]).collect();
        let checks: String = (0..n).map(|i| format!("if x{i} != {} {{ bad = bad + 1; }} ", vals[i % vals.len()])).collect();
        let src = format!(
            "fn k({}) -> i32 {{ let bad = 0; {checks}bad }}
fn f(a: i32, b: i32) -> i32 {{ k({}) * 1000 + a }}
",
            params.join(", "),
            args.join(", ")
        );
        v.push(t(format!("stack-args-mixed-{n}"), src, |a, _| Some(a)));
    }
    // the k-th of 12 i64 parameters, arguments computed from a and b (not constants)
    {
        let params: Vec<String> = (0..12).map(|i| format!("x{i}: i64")).collect();
        let sel: String = (0..11).map(|i| format!("if k == {i} {{ x{i} }} else ")).collect::<String>() + "{ x11 }";
        let src = format!(
            "fn pick(k: i32, {}) -> i64 {{ {sel} }}
             fn w(x: i32) -> i64 {{ if x < 0 {{ 0 - 1 }} else if x == 0 {{ 0 }} else {{ 1 }} }}
             fn f(a: i32, b: i32) -> i32 {{ let p = w(a); let q = w(b); let k = (p + 1) * 3 + q + 1;              let r = pick(if k == 0 {{ 0 }} else if k == 1 {{ 3 }} else if k == 2 {{ 5 }} else if k == 3 {{ 6 }} else if k == 4 {{ 7 }} else if k == 5 {{ 8 }} else if k == 6 {{ 9 }} else if k == 7 {{ 10 }} else {{ 11 }},              p, q, p + q, p - q, p * 2, q * 2, p + 10, q + 10, p + 20, q + 20, p + 30, q + 30);              if r == 0 - 1 {{ 0 - 1 }} else if r > 100 {{ 100 }} else if r == 0 {{ 0 }} else if r == 1 {{ 1 }} else if r == 2 {{ 2 }} else if r < 15 {{ 10 }} else if r < 25 {{ 20 }} else {{ 30 }} }}
",
            params.join(", ")
        );
        v.push(t("stack-args-select", src, |a, b| {
            let w = |x: i32| -> i64 { if x < 0 { -1 } else if x == 0 { 0 } else { 1 } };
            let (p, q) = (w(a), w(b));
            let k = (p + 1) * 3 + q + 1;
            let idx = [0usize, 3, 5, 6, 7, 8, 9, 10, 11][k as usize];
            let xs = [p, q, p + q, p - q, p * 2, q * 2, p + 10, q + 10, p + 20, q + 20, p + 30, q + 30];
            let r = xs[idx];
            Some(if r == -1 { -1 } else if r > 100 { 100 } else if r == 0 { 0 } else if r == 1 { 1 } else if r == 2 { 2 } else if r < 15 { 10 } else if r < 25 { 20 } else { 30 })
        }));
    }
    // ---- match on an enum with k variants: EVERY non-empty subset of the variants named
    // by an arm (in ascending and in descending order), `_` for the rest (also a redundant
    // `_` after all variants), evaluated on every variant; field-less enums and enums
    // whose variants carry 0, 1 or 2 payload fields; the examinee a call result, a
    // parameter of enum type, and a local (added after seeded change C01-4)
    for k in 2..=5usize {
        for payload in [false, true] {
            // variant i of the payload enum has i % 3 fields
            let fields = move |i: usize| if payload { i % 3 } else { 0 };
            let decl: Vec<String> = (0..k)
                .map(|i| match fields(i) {
                    0 => format!("V{i}"),
                    1 => format!("V{i}(i32)"),
                    _ => format!("V{i}(i32, i32)"),
                })
                .collect();
            let ctor = move |i: usize| match fields(i) {
                0 => format!("En.V{i}"),
                1 => format!("En.V{i}(b)"),
                _ => format!("En.V{i}(b, {})", i + 2),
            };
            let mk: String = (0..k - 1).map(|i| format!("if n == {i} {{ {} }} else ", ctor(i))).collect::<String>()
                + &format!("{{ {} }}", ctor(k - 1));
            for mask in 1u32..(1 << k) {
                for desc in [false, true] {
                    for redundant in [false, true] {
                        let all = mask == (1 << k) - 1;
                        if redundant && !all {
                            continue;
                        }
                        let mut named: Vec<usize> = (0..k).filter(|i| mask >> i & 1 == 1).collect();
                        if desc {
                            named.reverse();
                        }
                        let mut arms: Vec<String> = named
                            .iter()
                            .map(|i| match fields(*i) {
                                0 => format!("V{i} => {}", (i + 1) * 7),
                                1 => format!("V{i}(x) => {} + x", (i + 1) * 7),
                                _ => format!("V{i}(x, y) => {} + x - y", (i + 1) * 7),
                            })
                            .collect();
                        if !all || redundant {
                            arms.push("_ => 1".into());
                        }
                        let arms = arms.join(", ");
                        for (shape, body) in [
                            ("call", format!("match mk(a, b) {{ {arms} }}")),
                            ("param", "sel(mk(a, b))".to_string()),
                            ("local", format!("let e = mk(a, b); let r = match e {{ {arms} }}; r + 0")),
                        ] {
                            let src = format!(
                                "enum En {{ {} }}\nfn mk(n: i32, b: i32) -> En {{ {mk} }}\nfn sel(e: En) -> i32 {{ match e {{ {arms} }} }}\nfn f(a: i32, b: i32) -> i32 {{ {body} }}\n",
                                decl.join(", ")
                            );
                            v.push(t(
                                format!("match-subset-k{k}-{}-m{mask}-{}{}-{shape}", if payload { "payload" } else { "plain" }, if desc { "desc" } else { "asc" }, if redundant { "-redundant" } else { "" }),
                                src,
                                move |a, b| {
                                    let i = if a >= 0 && (a as usize) < k - 1 { a as usize } else { k - 1 };
                                    if mask >> i & 1 == 0 {
                                        return Some(1);
                                    }
                                    let base = ((i + 1) * 7) as i32;
                                    Some(match fields(i) {
                                        0 => base,
                                        1 => base.wrapping_add(b),
                                        _ => base.wrapping_add(b).wrapping_sub(i as i32 + 2),
                                    })
                                },
                            ));
                        }
                    }
                }
            }
        }
    }
    v
}
