//! Hand-enumerated templates (filled in below): function-call shapes,
//! recursion, literal typing contexts.
use c00ref::*;

pub fn all() -> Vec<Program> {
    vec![]
}
