fn main() {
    c01::run()
}
