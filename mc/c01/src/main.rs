fn main() {
    // `c01 --counts [quick|thorough]`: programs per family (sizing aid)
    let args: Vec<String> = std::env::args().collect();
    if args.get(1).map(|s| s.as_str()) == Some("--counts") {
        c01::print_counts(args.get(2).map(|s| s.as_str()) == Some("thorough"));
        return;
    }
    c01::run()
}
