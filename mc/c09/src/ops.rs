//! Operator sequences: every sequence of k binary operators between distinct
//! operands, judged with a reference grouping derived from the documented
//! precedence table (language_reference.md, "Operators"):
//!
//!   1. `*` `/` `%`            (bind tightest)
//!   2. `+` `-`
//!   3. `==` `!=` `<` `<=` `>` `>=`   lower than arithmetic, cannot be chained
//!   4. `&&` `||`              lowest, cannot be mixed without parentheses
//!
//! arithmetic and logical operators associate to the left.

use roto::{NoCtx, Package, TypedFunc};
use vcore::util::{decode, fnv_str, mix};
use vcore::{Cx, SUB_SETUP, Tier, Value, json};

use crate::run::{Verdict, classify, full_compile};

pub const OPS: [&str; 13] = ["*", "/", "%", "+", "-", "==", "!=", "<", "<=", ">", ">=", "&&", "||"];
const NAMES: [&str; 6] = ["a", "b", "c", "d", "e", "g"];

fn level(op: usize) -> u8 {
    match op {
        0..=2 => 3,
        3..=4 => 2,
        5..=10 => 1,
        _ => 0,
    }
}

#[derive(Clone, Debug, PartialEq)]
pub enum Tree {
    Leaf(usize),
    Bin(usize, Box<Tree>, Box<Tree>),
}

#[derive(Clone, Copy, Debug, PartialEq)]
pub enum Reject {
    ComparisonChain,
    AndOrMixture,
}

/// Reference grouping of `leaf(lo) op[0] leaf(lo+1) ... op[n-1] leaf(lo+n)`:
/// split at the loosest operators present, left to right.
pub fn ref_parse(ops: &[usize], lo: usize) -> Result<Tree, Reject> {
    if ops.is_empty() {
        return Ok(Tree::Leaf(lo));
    }
    let min = ops.iter().map(|o| level(*o)).min().unwrap();
    let at: Vec<usize> = (0..ops.len()).filter(|i| level(ops[*i]) == min).collect();
    if min == 0 && at.iter().any(|i| ops[*i] != ops[at[0]]) {
        return Err(Reject::AndOrMixture);
    }
    if min == 1 && at.len() > 1 {
        return Err(Reject::ComparisonChain);
    }
    let mut tree = ref_parse(&ops[..at[0]], lo)?;
    for (j, p) in at.iter().enumerate() {
        let end = at.get(j + 1).copied().unwrap_or(ops.len());
        let rhs = ref_parse(&ops[p + 1..end], lo + p + 1)?;
        tree = Tree::Bin(ops[*p], Box::new(tree), Box::new(rhs));
    }
    Ok(tree)
}

/// A grouping an implementation *might* wrongly give to a forbidden sequence:
/// comparisons associate to the left or right, `&&`/`||` share a level or one
/// binds tighter. Only used to choose operand typings under which such a wrong
/// grouping would be well typed (so that a wrongly accepting compiler is
/// caught by the typechecker not complaining either).
fn fallback_parse(ops: &[usize], lo: usize, cmp_right: bool, logic: u8) -> Tree {
    if ops.is_empty() {
        return Tree::Leaf(lo);
    }
    let lvl = |o: usize| -> u8 {
        match (o, logic) {
            (11, 1) | (12, 2) => 1,
            (11 | 12, _) => 0,
            _ => level(o) + 1,
        }
    };
    let min = ops.iter().map(|o| lvl(*o)).min().unwrap();
    let at: Vec<usize> = (0..ops.len()).filter(|i| lvl(ops[*i]) == min).collect();
    if cmp_right && min == 2 {
        let p = at[0];
        return Tree::Bin(
            ops[p],
            Box::new(fallback_parse(&ops[..p], lo, cmp_right, logic)),
            Box::new(fallback_parse(&ops[p + 1..], lo + p + 1, cmp_right, logic)),
        );
    }
    let p = *at.last().unwrap();
    Tree::Bin(
        ops[p],
        Box::new(fallback_parse(&ops[..p], lo, cmp_right, logic)),
        Box::new(fallback_parse(&ops[p + 1..], lo + p + 1, cmp_right, logic)),
    )
}

/// operand typings tried on a forbidden sequence: all of them for k <= 3;
/// for longer sequences all-int, all-bool and every typing that is well typed
/// under one of the six fallback groupings
fn forbidden_typings(ops: &[usize]) -> Vec<u32> {
    let n = ops.len() + 1;
    if ops.len() <= 3 {
        return (0..(1u32 << n)).collect();
    }
    let mut v = vec![0, (1u32 << n) - 1];
    for cmp_right in [false, true] {
        for logic in 0..3 {
            let t = fallback_parse(ops, 0, cmp_right, logic);
            for lb in 0..(1u32 << n) {
                if type_of(&t, lb).is_some() && !v.contains(&lb) {
                    v.push(lb);
                }
            }
        }
    }
    v
}

/// is the operator sequence forbidden as a whole (anywhere in it)?
pub fn ref_reject(ops: &[usize]) -> Option<Reject> {
    ref_parse(ops, 0).err()
}

#[derive(Clone, Copy, PartialEq, Debug)]
pub enum T {
    Int,
    Bool,
}

pub fn type_of(t: &Tree, leaf_bool: u32) -> Option<T> {
    match t {
        Tree::Leaf(i) => Some(if leaf_bool >> i & 1 == 1 { T::Bool } else { T::Int }),
        Tree::Bin(op, l, r) => {
            let (l, r) = (type_of(l, leaf_bool)?, type_of(r, leaf_bool)?);
            match op {
                0..=4 => (l == T::Int && r == T::Int).then_some(T::Int),
                5 | 6 => (l == r).then_some(T::Bool),
                7..=10 => (l == T::Int && r == T::Int).then_some(T::Bool),
                _ => (l == T::Bool && r == T::Bool).then_some(T::Bool),
            }
        }
    }
}

#[derive(Clone, Copy, PartialEq, Debug)]
enum V {
    I(i64),
    B(bool),
}

/// reference evaluation; None: a divisor is zero (C10's finding, skipped)
fn eval(t: &Tree, vals: &[i64; 6], leaf_bool: u32, unary: u32) -> Option<V> {
    Some(match t {
        Tree::Leaf(i) => {
            let neg = unary >> i & 1 == 1;
            if leaf_bool >> i & 1 == 1 {
                let b = vals[*i] > 0;
                V::B(if neg { !b } else { b })
            } else {
                V::I(if neg { -vals[*i] } else { vals[*i] })
            }
        }
        Tree::Bin(op, l, r) => {
            if *op == 11 || *op == 12 {
                // short-circuit: the right operand has no effects here, so
                // evaluate both (a zero divisor on the right is still skipped)
                let (V::B(x), V::B(y)) = (eval(l, vals, leaf_bool, unary)?, eval(r, vals, leaf_bool, unary)?) else { return None };
                return Some(V::B(if *op == 11 { x && y } else { x || y }));
            }
            match (eval(l, vals, leaf_bool, unary)?, eval(r, vals, leaf_bool, unary)?) {
                (V::I(x), V::I(y)) => match op {
                    0 => V::I(x * y),
                    1 => V::I(if y == 0 { return None } else { x / y }),
                    2 => V::I(if y == 0 { return None } else { x % y }),
                    3 => V::I(x + y),
                    4 => V::I(x - y),
                    5 => V::B(x == y),
                    6 => V::B(x != y),
                    7 => V::B(x < y),
                    8 => V::B(x <= y),
                    9 => V::B(x > y),
                    _ => V::B(x >= y),
                },
                (V::B(x), V::B(y)) => match op {
                    5 => V::B(x == y),
                    _ => V::B(x != y),
                },
                _ => return None,
            }
        }
    })
}

fn leaf_text(i: usize, leaf_bool: u32, unary: u32, paren: bool) -> String {
    let b = leaf_bool >> i & 1 == 1;
    let name = if b { format!("p{}", NAMES[i]) } else { NAMES[i].to_string() };
    if unary >> i & 1 == 1 {
        let u = if b { "!" } else { "-" };
        if paren { format!("({u}{name})") } else { format!("{u}{name}") }
    } else {
        name
    }
}

fn flat(ops: &[usize], leaf_bool: u32, unary: u32) -> String {
    let mut s = leaf_text(0, leaf_bool, unary, false);
    for (i, o) in ops.iter().enumerate() {
        s += &format!(" {} {}", OPS[*o], leaf_text(i + 1, leaf_bool, unary, false));
    }
    s
}

fn parenthesised(t: &Tree, leaf_bool: u32, unary: u32) -> String {
    match t {
        Tree::Leaf(i) => leaf_text(*i, leaf_bool, unary, true),
        Tree::Bin(op, l, r) => {
            format!("({} {} {})", parenthesised(l, leaf_bool, unary), OPS[*op], parenthesised(r, leaf_bool, unary))
        }
    }
}

fn func(name: &str, n_leaves: usize, leaf_bool: u32, ret: T, expr: &str) -> String {
    let mut s = format!("fn {name}(a: i32, b: i32, c: i32, d: i32, e: i32, g: i32) -> {} {{\n", if ret == T::Int { "i32" } else { "bool" });
    for i in 0..n_leaves {
        if leaf_bool >> i & 1 == 1 {
            s += &format!("    let p{0} = {0} > 0;\n", NAMES[i]);
        }
    }
    s += &format!("    {expr}\n}}\n");
    s
}

// ------------------------------------------------------------------ enumeration

#[derive(Clone, Copy, Debug, PartialEq)]
pub struct OpsFam {
    pub k: usize,
    pub unary: bool,
}

pub fn families(tier: Tier) -> Vec<OpsFam> {
    let (kmax, umax) = tier.pick((3, 2), (5, 3));
    let mut v = vec![];
    for k in 1..=kmax {
        v.push(OpsFam { k, unary: false });
        if k <= umax {
            v.push(OpsFam { k, unary: true });
        }
    }
    v
}

impl OpsFam {
    pub fn name(self) -> String {
        format!("Ops(k={}{})", self.k, if self.unary { ", unary" } else { "" })
    }
    pub fn count(self) -> u64 {
        13u64.pow(self.k as u32) * if self.unary { (1u64 << (self.k + 1)) - 1 } else { 1 }
    }
    pub fn chunk(self) -> u64 {
        match self.k {
            0..=3 => 96,
            4 => 160,
            _ => 256,
        }
    }
    /// (operator sequence, unary mask) of case idx
    fn seq(self, idx: u64) -> (Vec<usize>, u32) {
        let per = if self.unary { (1u64 << (self.k + 1)) - 1 } else { 1 };
        let ops = decode(idx / per, &vec![13; self.k]).iter().map(|x| *x as usize).collect();
        // unary masks 1..2^(k+1)-1 (mask 0 is the plain family)
        let mask = if self.unary { (idx % per) as u32 + 1 } else { 0 };
        (ops, mask)
    }
}

/// integer operand domain: {-3..3}; {-2..2} with five and {-2,-1,1,3} with
/// six integer operands (those only occur for k >= 4; the shorter sequences
/// cover every operator pair and triple on the full domain)
fn int_domain(n_int: usize) -> &'static [i64] {
    match n_int {
        0..=4 => &[-3, -2, -1, 0, 1, 2, 3],
        5 => &[-2, -1, 0, 1, 2],
        _ => &[-2, -1, 1, 3],
    }
}

const VEC_COMPILE: u64 = 0xFFFF_FFFF;

fn sub_of(local: u64, typing: u32, vec: u64) -> u64 {
    (local << 40) | ((typing as u64) << 32) | vec
}

struct Prog {
    local: u64,
    ops: Vec<usize>,
    unary: u32,
    tree: Tree,
    leaf_bool: u32,
    ret: T,
    u_name: String,
    p_name: String,
    u_src: String,
    p_src: String,
}

fn case_json(fam: OpsFam, ops: &[usize], unary: u32, extra: Value) -> Value {
    let seq: Vec<&str> = ops.iter().map(|o| OPS[*o]).collect();
    let mut v = json!({"kind": "operators", "family": fam.name(), "operators": seq, "unary_mask": unary});
    if let (Some(o), Some(e)) = (v.as_object_mut(), extra.as_object()) {
        for (k, x) in e {
            o.insert(k.clone(), x.clone());
        }
    }
    v
}

fn vector(p_leaf_bool: u32, n_leaves: usize, vi: u64) -> [i64; 6] {
    let n_int = (0..n_leaves).filter(|i| p_leaf_bool >> i & 1 == 0).count();
    let dom = int_domain(n_int);
    let rad: Vec<u64> = (0..n_leaves).map(|i| if p_leaf_bool >> i & 1 == 1 { 2 } else { dom.len() as u64 }).collect();
    let d = decode(vi, &rad);
    let mut v = [0i64; 6];
    for i in 0..n_leaves {
        v[i] = if p_leaf_bool >> i & 1 == 1 { d[i] as i64 } else { dom[d[i] as usize] };
    }
    v
}

fn n_vectors(leaf_bool: u32, n_leaves: usize) -> u64 {
    let n_int = (0..n_leaves).filter(|i| leaf_bool >> i & 1 == 0).count();
    (0..n_leaves).map(|i| if leaf_bool >> i & 1 == 1 { 2 } else { int_domain(n_int).len() as u64 }).product()
}

enum Func {
    I(TypedFunc<NoCtx, fn(i32, i32, i32, i32, i32, i32) -> i32>),
    B(TypedFunc<NoCtx, fn(i32, i32, i32, i32, i32, i32) -> bool>),
}

impl Func {
    fn get(pkg: &mut Package<NoCtx>, name: &str, ret: T) -> Result<Func, String> {
        match ret {
            T::Int => pkg.get_function(name).map(Func::I).map_err(|e| e.to_string()),
            T::Bool => pkg.get_function(name).map(Func::B).map_err(|e| e.to_string()),
        }
    }
    #[inline]
    fn call(&self, v: &[i64; 6]) -> V {
        let a = |i: usize| v[i] as i32;
        match self {
            Func::I(f) => V::I(f.call(a(0), a(1), a(2), a(3), a(4), a(5)) as i64),
            Func::B(f) => V::B(f.call(a(0), a(1), a(2), a(3), a(4), a(5))),
        }
    }
}

fn vjson(v: V) -> Value {
    match v {
        V::I(i) => json!(i),
        V::B(b) => json!(b),
    }
}

pub fn run(fam: OpsFam, start: u64, len: u64, cx: &mut Cx) {
    if !cx.case(SUB_SETUP) {
        return;
    }
    let rt = host::runtime();
    let n_leaves = fam.k + 1;
    let mut progs: Vec<Prog> = vec![];
    let (mut n_states, mut n_trans, mut n_valid, mut n_unspec) = (0u64, 0u64, 0u64, 0u64);
    for local in 0..len {
        let (ops, unary) = fam.seq(start + local);
        n_states += 1;
        match ref_parse(&ops, 0) {
            Err(why) => {
                // must be rejected whatever the operand types are: try all
                if !cx.case(sub_of(local, 0, VEC_COMPILE)) {
                    continue;
                }
                let mut accepted = vec![];
                for leaf_bool in forbidden_typings(&ops) {
                    let src = func("f", n_leaves, leaf_bool, T::Bool, &flat(&ops, leaf_bool, unary));
                    n_trans += 1;
                    if let Verdict::Accept = classify(&rt, &src) {
                        accepted.push(src);
                    }
                }
                n_valid += 1;
                cx.nontrivial(mix(fnv_str(&flat(&ops, 0, unary)), 1));
                if accepted.is_empty() {
                    cx.outcome(fnv_str("rejected"));
                } else {
                    cx.violation(
                        "accepted-forbidden",
                        sub_of(local, 0, VEC_COMPILE),
                        case_json(fam, &ops, unary, json!({"reason": format!("{why:?}"), "program": accepted[0], "typings_accepted": accepted.len()})),
                        json!("the script is rejected"),
                        json!("compiled (parse + typecheck succeeded)"),
                    );
                }
            }
            Ok(tree) => {
                let mut any = false;
                for leaf_bool in 0..(1u32 << n_leaves) {
                    let Some(ret) = type_of(&tree, leaf_bool) else { continue };
                    any = true;
                    let j = progs.len();
                    let (u_name, p_name) = (format!("flat{j}"), format!("paren{j}"));
                    progs.push(Prog {
                        local,
                        u_src: func(&u_name, n_leaves, leaf_bool, ret, &flat(&ops, leaf_bool, unary)),
                        p_src: func(&p_name, n_leaves, leaf_bool, ret, &parenthesised(&tree, leaf_bool, unary)),
                        ops: ops.clone(),
                        unary,
                        tree: tree.clone(),
                        leaf_bool,
                        ret,
                        u_name,
                        p_name,
                    });
                }
                if !any {
                    n_unspec += 1;
                    cx.count("sequences_ill_typed_under_reference_grouping", 1);
                }
            }
        }
    }
    // one package for all programs of the unit
    let mut batch = String::new();
    for p in &progs {
        batch += &p.u_src;
        batch += &p.p_src;
    }
    let mut pkg: Option<Package<NoCtx>> = None;
    if !progs.is_empty() && cx.case(SUB_SETUP) {
        n_trans += 1;
        match full_compile(&rt, &batch) {
            Ok(p) => pkg = Some(p),
            Err(_) => cx.count("batch_compile_failed_fell_back_to_single", 1),
        }
    }
    let dead: Vec<u64> = cx.skipped_cases().iter().map(|s| s >> 32).collect();
    for (ti, p) in progs.iter().enumerate() {
        let typing = ti as u32 & 0xff;
        let case_of = |extra: Value| {
            let mut e = json!({"unparenthesised": p.u_src, "parenthesised": p.p_src, "bool_operands_mask": p.leaf_bool});
            if let (Some(o), Some(x)) = (e.as_object_mut(), extra.as_object()) {
                for (k, v) in x {
                    o.insert(k.clone(), v.clone());
                }
            }
            case_json(fam, &p.ops, p.unary, e)
        };
        let csub = sub_of(p.local, typing, VEC_COMPILE);
        if let Some(o) = cx.only() {
            if o != SUB_SETUP && o >> 32 != csub >> 32 {
                continue;
            }
        }
        if dead.contains(&(csub >> 32)) {
            // a vector of this program killed a worker before: already reported
            continue;
        }
        let mut single: Option<Package<NoCtx>> = None;
        if pkg.is_none() {
            if !cx.case(csub) {
                continue;
            }
            n_trans += 1;
            match full_compile(&rt, &format!("{}{}", p.u_src, p.p_src)) {
                Ok(pk) => single = Some(pk),
                Err(v) => {
                    n_valid += 1;
                    let obs = match v {
                        Verdict::Reject(k) => json!({"rejected_with_errors": k}),
                        Verdict::Panic(m) => json!({"compiler_panicked": m}),
                        Verdict::Accept => unreachable!(),
                    };
                    cx.violation("rejected-documented", csub, case_of(json!({})), json!("both forms compile"), obs);
                    continue;
                }
            }
        }
        let pk = pkg.as_mut().or(single.as_mut()).unwrap();
        let (fu, fp) = match (Func::get(pk, &p.u_name, p.ret), Func::get(pk, &p.p_name, p.ret)) {
            (Ok(a), Ok(b)) => (a, b),
            (a, b) => {
                cx.violation(
                    "rejected-documented",
                    csub,
                    case_of(json!({})),
                    json!("both functions can be retrieved"),
                    json!([a.err(), b.err()]),
                );
                continue;
            }
        };
        let nv = n_vectors(p.leaf_bool, n_leaves);
        let mut h: u64 = 0;
        let mut first: Option<V> = None;
        let mut varied = false;
        let mut calls = 0u64;
        let n_int = (0..n_leaves).filter(|i| p.leaf_bool >> i & 1 == 0).count();
        let dom = int_domain(n_int);
        let mut digits = [0usize; 6];
        let mut vals = [0i64; 6];
        for (i, v) in vals.iter_mut().enumerate().take(n_leaves) {
            *v = if p.leaf_bool >> i & 1 == 1 { 0 } else { dom[0] };
        }
        for vi in 0..nv {
            if vi > 0 {
                // next vector, last operand fastest (same order as `vector`)
                for i in (0..n_leaves).rev() {
                    let is_bool = p.leaf_bool >> i & 1 == 1;
                    let radix = if is_bool { 2 } else { dom.len() };
                    digits[i] += 1;
                    if digits[i] < radix {
                        vals[i] = if is_bool { digits[i] as i64 } else { dom[digits[i]] };
                        break;
                    }
                    digits[i] = 0;
                    vals[i] = if is_bool { 0 } else { dom[0] };
                }
            }
            debug_assert_eq!(vals, vector(p.leaf_bool, n_leaves, vi));
            let Some(r) = eval(&p.tree, &vals, p.leaf_bool, p.unary) else {
                n_unspec += 1;
                continue;
            };
            let sub = sub_of(p.local, typing, vi);
            if !cx.case(sub) {
                continue;
            }
            let vu = fu.call(&vals);
            let vp = fp.call(&vals);
            calls += 2;
            h = mix(h, match vu { V::I(i) => i as u64, V::B(b) => b as u64 });
            match first {
                None => first = Some(vu),
                Some(f) if f != vu => varied = true,
                _ => {}
            }
            if vu != vp {
                cx.violation(
                    "paren-mismatch",
                    sub,
                    case_of(json!({"inputs": vals[..n_leaves]})),
                    json!({"unparenthesised equals parenthesised; reference": vjson(r)}),
                    json!({"unparenthesised": vjson(vu), "parenthesised": vjson(vp)}),
                );
                break;
            }
            if vp != r {
                cx.violation(
                    "reference-mismatch",
                    sub,
                    case_of(json!({"inputs": vals[..n_leaves]})),
                    json!({"both forms": vjson(r)}),
                    json!({"unparenthesised": vjson(vu), "parenthesised": vjson(vp)}),
                );
                break;
            }
        }
        n_trans += calls;
        n_valid += calls / 2;
        cx.outcome(h);
        if varied {
            cx.nontrivial(fnv_str(&p.u_src));
        }
        if cx.res.samples.is_empty() && ti % 7 == 3 {
            cx.sample(json!({"case": case_of(json!({})), "vectors": nv}));
        }
    }
    cx.states(n_states);
    cx.transitions(n_trans);
    cx.validated(n_valid);
    cx.unspecified(n_unspec);
}

pub fn describe(fam: OpsFam, start: u64, sub: u64) -> Value {
    if sub == SUB_SETUP {
        return json!({"kind": "operators", "family": fam.name(), "setup": "batch compile", "first_case": start});
    }
    let local = sub >> 40;
    let typing = ((sub >> 32) & 0xff) as u32;
    let vi = sub & 0xFFFF_FFFF;
    let (ops, unary) = fam.seq(start + local);
    let n_leaves = fam.k + 1;
    // typing index: position among all well-typed programs of the unit
    let mut j = 0u32;
    for l in 0..=local {
        let (o, _) = fam.seq(start + l);
        if let Ok(tree) = ref_parse(&o, 0) {
            for leaf_bool in 0..(1u32 << n_leaves) {
                if let Some(ret) = type_of(&tree, leaf_bool) {
                    if l == local && (j & 0xff) == typing && vi != VEC_COMPILE {
                        let vals = vector(leaf_bool, n_leaves, vi);
                        return case_json(
                            fam,
                            &ops,
                            unary,
                            json!({
                                "unparenthesised": func("u", n_leaves, leaf_bool, ret, &flat(&ops, leaf_bool, unary)),
                                "parenthesised": func("p", n_leaves, leaf_bool, ret, &parenthesised(&tree, leaf_bool, unary)),
                                "bool_operands_mask": leaf_bool, "inputs": vals[..n_leaves],
                            }),
                        );
                    }
                    j += 1;
                }
            }
        }
    }
    case_json(fam, &ops, unary, json!({"stage": "compile", "unparenthesised_expr": flat(&ops, 0, unary)}))
}

pub fn preflight() -> Result<(), String> {
    let idx = |s: &str| OPS.iter().position(|o| *o == s).unwrap();
    let seq = |s: &str| -> Vec<usize> { s.split(' ').map(idx).collect() };
    // the documented example: 1 + x * 3 == 5 && y < 10  is  ((1 + (x * 3)) == 5) && (y < 10)
    let t = ref_parse(&seq("+ * == && <"), 0).map_err(|e| format!("{e:?}"))?;
    let shown = parenthesised(&t, 0, 0);
    if shown != "(((a + (b * c)) == d) && (e < g))" {
        return Err(format!("reference parser groups the documented example as {shown}"));
    }
    let checks = [
        ("- -", "((a - b) - c)"),
        ("/ *", "((a / b) * c)"),
        ("+ *", "(a + (b * c))"),
        ("* +", "((a * b) + c)"),
        ("&& &&", "((a && b) && c)"),
        ("< && >", "((a < b) && (c > d))"),
        ("- % +", "((a - (b % c)) + d)"),
    ];
    for (s, want) in checks {
        let got = ref_parse(&seq(s), 0).map(|t| parenthesised(&t, 0, 0)).map_err(|e| format!("{s}: {e:?}"))?;
        if got != want {
            return Err(format!("reference parser: {s} grouped as {got}, expected {want}"));
        }
    }
    for (s, want) in [("< <", Reject::ComparisonChain), ("== + !=", Reject::ComparisonChain), ("&& ||", Reject::AndOrMixture), ("|| < &&", Reject::AndOrMixture), ("&& < <", Reject::ComparisonChain)] {
        if ref_reject(&seq(s)) != Some(want) {
            return Err(format!("reference parser does not reject {s} as {want:?}"));
        }
    }
    Ok(())
}
