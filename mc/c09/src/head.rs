//! Operator sequences whose FIRST operand is an `if`, a `match` or a block
//! expression standing at the start of a block item (function body, after a
//! `let`, inside an inner block).
//!
//! The reference says "The if-else is an expression, not a statement" (and the
//! same for match); the property says an expression and its fully
//! parenthesised form behave identically. So `{ if c { 10 } else { 20 } - b }`
//! has to mean `(if c { 10 } else { 20 }) - b`. Where the unparenthesised
//! spelling is rejected nothing is judged (rejecting is allowed); where it is
//! accepted it has to agree with the parenthesised form on every input.

use roto::{NoCtx, Package, TypedFunc};
use vcore::util::{decode, fnv_str, mix};
use vcore::{Cx, SUB_SETUP, Value, json};

use crate::ops::{OPS, T, Tree, ref_parse, type_of};
use crate::run::{Verdict, classify, full_compile};

/// (kind, text, is bool)
const HEADS: [(&str, &str, bool); 6] = [
    ("if", "if a > 0 { 10 } else { 20 }", false),
    ("match", "match Option.Some(a) { Some(y) => y, None => 0 }", false),
    ("block", "{ a }", false),
    ("if", "if a > 0 { true } else { false }", true),
    ("match", "match Option.Some(a > 0) { Some(y) => y, None => false }", true),
    ("block", "{ a > 0 }", true),
];
const CONTEXTS: [&str; 3] = ["function body", "after a let statement", "inner block"];
const NAMES: [&str; 3] = ["a", "b", "c"];
const DOM: [i64; 7] = [-3, -2, -1, 0, 1, 2, 3];

pub fn count() -> u64 {
    (HEADS.len() * CONTEXTS.len() * (13 + 169)) as u64
}
pub const CHUNK: u64 = 182;

struct Item {
    head: usize,
    ctx: usize,
    ops: Vec<usize>,
}

fn item(idx: u64) -> Item {
    let d = decode(idx, &[HEADS.len() as u64, CONTEXTS.len() as u64, 182]);
    let ops = if d[2] < 13 { vec![d[2] as usize] } else { decode(d[2] - 13, &[13, 13]).iter().map(|x| *x as usize).collect() };
    Item { head: d[0] as usize, ctx: d[1] as usize, ops }
}

fn leaf(i: usize, leaf_bool: u32, head: usize, paren: bool) -> String {
    if i == 0 {
        return if paren { format!("({})", HEADS[head].1) } else { HEADS[head].1.to_string() };
    }
    if leaf_bool >> i & 1 == 1 { format!("({} > 0)", NAMES[i]) } else { NAMES[i].to_string() }
}

fn flat(it: &Item, leaf_bool: u32) -> String {
    let mut s = leaf(0, leaf_bool, it.head, false);
    for (i, o) in it.ops.iter().enumerate() {
        s += &format!(" {} {}", OPS[*o], leaf(i + 1, leaf_bool, it.head, false));
    }
    s
}

fn paren(t: &Tree, leaf_bool: u32, head: usize) -> String {
    match t {
        Tree::Leaf(i) => leaf(*i, leaf_bool, head, true),
        Tree::Bin(op, l, r) => format!("({} {} {})", paren(l, leaf_bool, head), OPS[*op], paren(r, leaf_bool, head)),
    }
}

fn func(name: &str, ctx: usize, ret: T, expr: &str) -> String {
    let r = if ret == T::Int { "i32" } else { "bool" };
    let body = match ctx {
        0 => format!("    {expr}\n"),
        1 => format!("    let z = 1;\n    {expr}\n"),
        _ => format!("    let r = {{\n        {expr}\n    }};\n    r\n"),
    };
    format!("fn {name}(a: i32, b: i32, c: i32) -> {r} {{\n{body}}}\n")
}

#[derive(Clone, Copy, PartialEq, Debug)]
enum V {
    I(i64),
    B(bool),
}

fn eval(t: &Tree, lv: &[V; 3]) -> Option<V> {
    Some(match t {
        Tree::Leaf(i) => lv[*i],
        Tree::Bin(op, l, r) => match (eval(l, lv)?, eval(r, lv)?) {
            (V::I(x), V::I(y)) => match op {
                0 => V::I(x * y),
                1 => V::I(if y == 0 { return None } else { x / y }),
                2 => V::I(if y == 0 { return None } else { x % y }),
                3 => V::I(x + y),
                4 => V::I(x - y),
                5 => V::B(x == y),
                6 => V::B(x != y),
                7 => V::B(x < y),
                8 => V::B(x <= y),
                9 => V::B(x > y),
                10 => V::B(x >= y),
                _ => return None,
            },
            (V::B(x), V::B(y)) => match op {
                5 => V::B(x == y),
                6 => V::B(x != y),
                11 => V::B(x && y),
                12 => V::B(x || y),
                _ => return None,
            },
            _ => return None,
        },
    })
}

fn leaf_values(it: &Item, leaf_bool: u32, v: &[i64; 3]) -> [V; 3] {
    let a = v[0];
    let h = match it.head {
        0 => V::I(if a > 0 { 10 } else { 20 }),
        1 | 2 => V::I(a),
        _ => V::B(a > 0),
    };
    let mut out = [h, V::I(0), V::I(0)];
    for i in 1..3 {
        out[i] = if leaf_bool >> i & 1 == 1 { V::B(v[i] > 0) } else { V::I(v[i]) };
    }
    out
}

/// input vectors: `a` over {-3..3} (bool heads only look at its sign), every
/// other int operand over {-3..3}, bool operands over {0, 1}
fn vectors(n_leaves: usize, leaf_bool: u32) -> Vec<[i64; 3]> {
    let rad: Vec<u64> = (0..n_leaves).map(|i| if i > 0 && leaf_bool >> i & 1 == 1 { 2 } else { 7 }).collect();
    let n: u64 = rad.iter().product();
    (0..n)
        .map(|vi| {
            let d = decode(vi, &rad);
            let mut v = [0i64; 3];
            for i in 0..n_leaves {
                v[i] = if i > 0 && leaf_bool >> i & 1 == 1 { d[i] as i64 } else { DOM[d[i] as usize] };
            }
            v
        })
        .collect()
}

enum Func {
    I(TypedFunc<NoCtx, fn(i32, i32, i32) -> i32>),
    B(TypedFunc<NoCtx, fn(i32, i32, i32) -> bool>),
}

impl Func {
    fn get(pkg: &mut Package<NoCtx>, name: &str, ret: T) -> Result<Func, String> {
        match ret {
            T::Int => pkg.get_function(name).map(Func::I).map_err(|e| e.to_string()),
            T::Bool => pkg.get_function(name).map(Func::B).map_err(|e| e.to_string()),
        }
    }
    fn call(&self, v: &[i64; 3]) -> V {
        match self {
            Func::I(f) => V::I(f.call(v[0] as i32, v[1] as i32, v[2] as i32) as i64),
            Func::B(f) => V::B(f.call(v[0] as i32, v[1] as i32, v[2] as i32)),
        }
    }
}

fn vjson(v: V) -> Value {
    match v {
        V::I(i) => json!(i),
        V::B(b) => json!(b),
    }
}

/// the typings (bit i: operand i is bool) under which the reference grouping
/// is well typed, the head having its own type
fn typings(it: &Item, tree: &Tree) -> Vec<(u32, T)> {
    let n = it.ops.len() + 1;
    let mut v = vec![];
    for lb in 0..(1u32 << n) {
        if (lb & 1 == 1) != HEADS[it.head].2 {
            continue;
        }
        if let Some(t) = type_of(tree, lb) {
            v.push((lb, t));
        }
    }
    v
}

fn sub_of(idx: u64, typing: usize, vec: u64) -> u64 {
    (idx << 24) | ((typing as u64) << 16) | vec
}
const VEC_COMPILE: u64 = 0xFFFF;

fn case_json(it: &Item, lb: u32, ret: T, tree: &Tree, extra: Value) -> Value {
    let seq: Vec<&str> = it.ops.iter().map(|o| OPS[*o]).collect();
    let mut v = json!({
        "kind": "operators-head", "head": HEADS[it.head].0, "head_text": HEADS[it.head].1,
        "context": CONTEXTS[it.ctx], "operators": seq, "first_operator": seq[0],
        "unparenthesised": func("f", it.ctx, ret, &flat(it, lb)),
        "parenthesised": func("f", it.ctx, ret, &paren(tree, lb, it.head)),
        "bool_operands_mask": lb,
    });
    if let (Some(o), Some(e)) = (v.as_object_mut(), extra.as_object()) {
        for (k, x) in e {
            o.insert(k.clone(), x.clone());
        }
    }
    v
}

/// mark the compile stage of a program; in a replay of one input vector the
/// compile stage of that same program runs under the replayed mark
fn gate(cx: &mut Cx, csub: u64) -> bool {
    match cx.only() {
        Some(o) if o != SUB_SETUP => (o >> 16) == (csub >> 16) && cx.case(o),
        _ => cx.case(csub),
    }
}

struct P {
    idx: u64,
    typing: usize,
    it: Item,
    lb: u32,
    ret: T,
    tree: Tree,
    flat_ok: bool,
}

pub fn run(start: u64, len: u64, cx: &mut Cx) {
    if !cx.case(SUB_SETUP) {
        return;
    }
    let rt = host::runtime();
    let (mut n_states, mut n_trans, mut n_valid, mut n_unspec) = (0u64, 0u64, 0u64, 0u64);
    let mut progs: Vec<P> = vec![];
    for idx in start..start + len {
        let it = item(idx);
        n_states += 1;
        let Ok(tree) = ref_parse(&it.ops, 0) else {
            // forbidden sequences are judged by the plain operator families
            n_unspec += 1;
            continue;
        };
        let ty = typings(&it, &tree);
        if ty.is_empty() {
            n_unspec += 1;
        }
        for (typing, (lb, ret)) in ty.into_iter().enumerate() {
            let it = item(idx);
            // is the unparenthesised spelling accepted at all?
            let csub = sub_of(idx, typing, VEC_COMPILE);
            if !gate(cx, csub) {
                continue;
            }
            n_trans += 1;
            let flat_ok = match classify(&rt, &func("f", it.ctx, ret, &flat(&it, lb))) {
                Verdict::Accept => true,
                Verdict::Reject(_) => {
                    cx.count("head_form_rejected_unparenthesised", 1);
                    false
                }
                Verdict::Panic(_) => {
                    cx.count("panic_on_spelling_not_promised_by_docs", 1);
                    false
                }
            };
            progs.push(P { idx, typing, it, lb, ret, tree: tree.clone(), flat_ok });
        }
    }
    let mut batch = String::new();
    for (j, p) in progs.iter().enumerate() {
        batch += &func(&format!("paren{j}"), p.it.ctx, p.ret, &paren(&p.tree, p.lb, p.it.head));
        if p.flat_ok {
            batch += &func(&format!("flat{j}"), p.it.ctx, p.ret, &flat(&p.it, p.lb));
        }
    }
    let mut pkg: Option<Package<NoCtx>> = None;
    if !progs.is_empty() && cx.case(SUB_SETUP) {
        n_trans += 1;
        match full_compile(&rt, &batch) {
            Ok(p) => pkg = Some(p),
            Err(_) => cx.count("batch_compile_failed_fell_back_to_single", 1),
        }
    }
    for (j, p) in progs.iter().enumerate() {
        let csub = sub_of(p.idx, p.typing, VEC_COMPILE);
        if !gate(cx, csub) {
            continue;
        }
        let mut single = None;
        if pkg.is_none() {
            let mut src = func(&format!("paren{j}"), p.it.ctx, p.ret, &paren(&p.tree, p.lb, p.it.head));
            if p.flat_ok {
                src += &func(&format!("flat{j}"), p.it.ctx, p.ret, &flat(&p.it, p.lb));
            }
            n_trans += 1;
            match full_compile(&rt, &src) {
                Ok(pk) => single = Some(pk),
                Err(v) => {
                    n_valid += 1;
                    let obs = match v {
                        Verdict::Reject(k) => json!({"rejected_with_errors": k}),
                        Verdict::Panic(m) => json!({"compiler_panicked": m}),
                        Verdict::Accept => unreachable!(),
                    };
                    cx.violation("rejected-documented", csub, case_json(&p.it, p.lb, p.ret, &p.tree, json!({})), json!("the parenthesised form compiles"), obs);
                    continue;
                }
            }
        }
        let pk = pkg.as_mut().or(single.as_mut()).unwrap();
        let fp = match Func::get(pk, &format!("paren{j}"), p.ret) {
            Ok(f) => f,
            Err(e) => {
                cx.violation("rejected-documented", csub, case_json(&p.it, p.lb, p.ret, &p.tree, json!({})), json!("function can be retrieved"), json!(e));
                continue;
            }
        };
        let fu = if p.flat_ok { Func::get(pk, &format!("flat{j}"), p.ret).ok() } else { None };
        let mut h = 0u64;
        let mut varied = false;
        let mut first = None;
        for (vi, v) in vectors(p.it.ops.len() + 1, p.lb).iter().enumerate() {
            let Some(r) = eval(&p.tree, &leaf_values(&p.it, p.lb, v)) else {
                n_unspec += 1;
                continue;
            };
            let sub = sub_of(p.idx, p.typing, vi as u64);
            if !cx.case(sub) {
                continue;
            }
            let vp = fp.call(v);
            n_trans += 1;
            n_valid += 1;
            h = mix(h, match vp { V::I(i) => i as u64, V::B(b) => b as u64 });
            match first {
                None => first = Some(vp),
                Some(f) if f != vp => varied = true,
                _ => {}
            }
            let n = p.it.ops.len() + 1;
            if vp != r {
                cx.violation(
                    "reference-mismatch",
                    sub,
                    case_json(&p.it, p.lb, p.ret, &p.tree, json!({"inputs": v[..n]})),
                    json!({"parenthesised": vjson(r)}),
                    json!({"parenthesised": vjson(vp)}),
                );
                break;
            }
            if let Some(fu) = &fu {
                let vu = fu.call(v);
                n_trans += 1;
                if vu != vp {
                    cx.violation(
                        "paren-mismatch",
                        sub,
                        case_json(&p.it, p.lb, p.ret, &p.tree, json!({"inputs": v[..n]})),
                        json!({"unparenthesised equals parenthesised; reference": vjson(r)}),
                        json!({"unparenthesised": vjson(vu), "parenthesised": vjson(vp)}),
                    );
                    break;
                }
            }
        }
        cx.outcome(h);
        if varied && fu.is_some() {
            cx.nontrivial(fnv_str(&format!("{}|{}|{}", p.idx, p.lb, flat(&p.it, p.lb))));
        }
        if fu.is_some() {
            cx.count("head_form_accepted_unparenthesised", 1);
            if cx.res.samples.is_empty() {
                cx.sample(case_json(&p.it, p.lb, p.ret, &p.tree, json!({})));
            }
        }
    }
    cx.states(n_states);
    cx.transitions(n_trans);
    cx.validated(n_valid);
    cx.unspecified(n_unspec);
}

pub fn describe(sub: u64) -> Value {
    if sub == SUB_SETUP {
        return json!({"kind": "operators-head", "setup": "batch compile"});
    }
    let idx = sub >> 24;
    let typing = ((sub >> 16) & 0xff) as usize;
    let vi = sub & 0xffff;
    let it = item(idx);
    let Ok(tree) = ref_parse(&it.ops, 0) else { return json!({"kind": "operators-head", "case": idx}) };
    let ty = typings(&it, &tree);
    let Some((lb, ret)) = ty.get(typing).copied() else { return json!({"kind": "operators-head", "case": idx}) };
    let n = it.ops.len() + 1;
    let extra = if vi == VEC_COMPILE {
        json!({"stage": "compile"})
    } else {
        match vectors(n, lb).get(vi as usize) {
            Some(v) => json!({"inputs": v[..n]}),
            None => json!({}),
        }
    };
    case_json(&it, lb, ret, &tree, extra)
}
