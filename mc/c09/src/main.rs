//! C09 — source text means what the documented grammar says.
//!
//! Part 1 (`lit.rs`): every spelling of the bounded literal / identifier /
//! comment grammar is compiled as `fn f() -> T { <spelling> }`; what `f()`
//! returns is compared with the value an independent decoder (`dec.rs`)
//! computes from the text. Spellings inside the documented grammar must be
//! accepted; keywords used as identifiers must be rejected; everything else
//! is judged only if accepted.
//!
//! Part 2 (`ops.rs`): every sequence of k binary operators between distinct
//! operands: forbidden sequences (comparison chains, `&&`/`||` mixtures) must
//! not compile under any operand typing; the others must compile both
//! unparenthesised and fully parenthesised by the reference grouping, and
//! agree with each other and the reference evaluation on all input vectors.

use vcore::{Cfg, Check, Cx, Finding, Meta, SUB_SETUP, Tier, Value, Violation, json};

mod dec;
mod head;
mod lit;
mod ops;
mod run;

#[derive(Clone, Copy, Debug)]
enum Unit {
    Lit { fam: lit::Fam, start: u64, len: u64 },
    Ops { fam: ops::OpsFam, start: u64, len: u64 },
    Head { start: u64, len: u64 },
}

fn unit_table(tier: Tier) -> Vec<Unit> {
    let mut small = vec![];
    let mut big = vec![];
    for fam in lit::families(tier) {
        let n = fam.count(tier);
        let ch = fam.chunk(tier);
        let dst = if n <= 4 * ch { &mut small } else { &mut big };
        let mut s = 0;
        while s < n {
            dst.push(Unit::Lit { fam, start: s, len: ch.min(n - s) });
            s += ch;
        }
    }
    let mut opsu = vec![];
    for fam in ops::families(tier) {
        let n = fam.count();
        let ch = fam.chunk();
        let mut s = 0;
        while s < n {
            opsu.push(Unit::Ops { fam, start: s, len: ch.min(n - s) });
            s += ch;
        }
    }
    // operands that are if / match / block expressions at the start of a block
    let mut s = 0;
    while s < head::count() {
        opsu.push(Unit::Head { start: s, len: head::CHUNK.min(head::count() - s) });
        s += head::CHUNK;
    }
    // simplest first: small literal families, operator sequences (short
    // ones first), then the large sweeps
    small.extend(opsu);
    small.extend(big);
    small
}

struct C09;

impl Check for C09 {
    fn id(&self) -> &'static str {
        "C09"
    }
    fn units(&self, cfg: &Cfg) -> usize {
        unit_table(cfg.tier).len()
    }
    fn run_unit(&self, unit: usize, cx: &mut Cx) {
        let t0 = std::time::Instant::now();
        let u = unit_table(cx.cfg.tier)[unit];
        let name = match u {
            Unit::Lit { fam, .. } => fam.name(),
            Unit::Ops { fam, .. } => fam.name(),
            Unit::Head { .. } => "OpsHead".to_string(),
        };
        match u {
            Unit::Lit { fam, start, len } => {
                let tier = cx.cfg.tier;
                let cases: Vec<(u64, run::Case)> = match cx.only() {
                    Some(o) if o != SUB_SETUP => {
                        if o >= start && o < start + len { vec![(o, fam.case(tier, o))] } else { vec![] }
                    }
                    _ => (start..start + len).map(|i| (i, fam.case(tier, i))).collect(),
                };
                cx.count(&format!("cases:{}", fam.name()), cases.len() as u64);
                run::run_cases(cx, cases);
            }
            Unit::Ops { fam, start, len } => {
                cx.count(&format!("cases:{}", fam.name()), len);
                ops::run(fam, start, len, cx);
            }
            Unit::Head { start, len } => {
                cx.count("cases:OpsHead", len);
                head::run(start, len, cx);
            }
        }
        cx.count(&format!("worker_ms:{name}"), t0.elapsed().as_millis() as u64);
    }
    fn describe(&self, cfg: &Cfg, unit: usize, sub: u64) -> Value {
        match unit_table(cfg.tier)[unit] {
            Unit::Lit { fam, start, len } => {
                if sub == SUB_SETUP || sub < start || sub >= start + len {
                    json!({"kind": "setup", "family": fam.name(), "first_case": start, "cases": len,
                           "note": "runtime construction or batch compile of the accepted cases of this unit"})
                } else {
                    fam.case(cfg.tier, sub).json()
                }
            }
            Unit::Ops { fam, start, .. } => ops::describe(fam, start, sub),
            Unit::Head { .. } => head::describe(sub),
        }
    }
    fn matches(&self, f: &Finding, v: &Violation) -> bool {
        let c = &v.case;
        let obs = v.observed.to_string();
        match f.matcher.as_str() {
            // text part of an f-string with a multi-byte character: cut by
            // char index used as byte count
            "fstring_nonascii_text_segment" => {
                c["kind"] == "fstring"
                    && c["nonascii_text_segment"] == true
                    && (v.class == "value-mismatch"
                        || v.class == "rejected-documented"
                        || (v.class == "panic" && obs.contains("is not a char boundary")))
            }
            // identifier starting with a non-ASCII XID_Start character
            "ident_nonascii_first_char_lexer_panic" => {
                c["kind"] == "ident-first"
                    && c["first_char_non_ascii"] == true
                    && c["xid_start"] == true
                    && v.class == "panic"
                    && obs.contains("is not a char boundary")
                    && obs.contains("parser/lexer.rs")
            }
            // `#!` followed by white space (or nothing) is not taken as a shebang
            "shebang_whitespace_after_hash_bang" => {
                c["kind"] == "shebang"
                    && c["whitespace_or_nothing_after_hash_bang"] == true
                    && v.class == "rejected-documented"
            }
            // `if c { 10 } else { 20 } - b` at the start of a block item: the
            // if / match is cut off as a statement and `-b` becomes the value
            "leading_if_match_then_minus" => {
                c["kind"] == "operators-head"
                    && (c["head"] == "if" || c["head"] == "match")
                    && c["first_operator"] == "-"
                    && v.class == "paren-mismatch"
            }
            // CR LF line end inside a string / f-string (continuation or multi-line)
            "crlf_line_end_in_literal" => {
                ["string-continuation", "string-raw", "fstring"].contains(&c["kind"].as_str().unwrap_or(""))
                    && c["crlf_line_end"] == true
                    && v.class == "rejected-documented"
                    && obs.contains("parse")
            }
            // `return 0xFF`: operand of return starting with a token that
            // can_start_expression does not list
            "return_operand_token_kind" => {
                c["kind"] == "literal-position"
                    && c["after_return"] == true
                    && ["hex", "char", "fstring", "if", "match"].contains(&c["token_kind"].as_str().unwrap_or(""))
                    && v.class == "rejected-documented"
                    && obs.contains("parse")
            }
            _ => false,
        }
    }
    fn meta(&self, cfg: &Cfg) -> Meta {
        let tier = cfg.tier;
        let fams: Vec<Value> = lit::families(tier)
            .iter()
            .map(|f| json!({"family": f.name(), "cases": f.count(tier)}))
            .chain(ops::families(tier).iter().map(|f| json!({"family": f.name(), "cases": f.count()})))
            .chain([json!({"family": "OpsHead (if / match / block as first operand at the start of a block, 1-2 operators, 3 contexts)", "cases": head::count()})])
            .collect();
        Meta {
            rule: "Literal part: every spelling of each bounded family (see bounds.families) is compiled alone as `fn f() -> T { spelling }` (parse + typecheck), accepted ones are compiled again together and f() is compared with the value decoded independently from the text; a spelling inside the documented grammar must be accepted, a documented keyword used as an identifier must be rejected, other spellings are judged only if accepted. A literal case is non-trivial when it was judged (value compared, or rejection demanded). Operator part: every sequence of k binary operators over the 13 (optionally with a unary operator on a non-empty subset of operands): a sequence with a comparison chain or an &&/|| mixture must fail to compile under the int/bool operand typings of bounds.forbidden_sequence_typings; any other sequence is compiled unparenthesised and fully parenthesised by the reference grouping for every operand typing that is well typed under that grouping and both are called on every input vector (int operands over {-3..3}; over {-2..2} when five and {-2,-1,1,3} when six operands are integers, which only happens for k >= 4; bool operands over both values) whose reference evaluation has no zero divisor; an operator program is non-trivial when its result differs between at least two input vectors.".into(),
            assumptions: vec![
                "unicode-ident (the version in /repo/Cargo.lock) is the trusted reference for XID_Start / XID_Continue".into(),
                "left open by the documentation, counted but not judged (audit items 1, 4, 6): (1) an integer literal outside the range of its type (`256u8`, `0x1FF` as u8, unsuffixed 3000000000 as i32, prefix length 264) is accepted and wraps - no documented value exists for such a spelling and the documentation does not say it is rejected (counter accepted_spelling_value_left_open_by_docs); (4) an f32 literal may be rounded once or via f64: both results are accepted, and f32/f64 literals outside the normal range are not judged; (6) u64 literals above i64::MAX and -9223372036854775808 are rejected although inside the documented range - the documentation does not promise a literal for every value (counter rejected_in_range_u64_above_i64_max)".into(),
                "also not judged: octets with leading zeros, whether a prefix keeps host bits, `\\x80`-`\\xff`, underscores or suffixes on hex literals, a lone CR; an unparenthesised `if`/`match`/block operand followed by an operator is judged only where it compiles".into(),
                "a CR LF pair is a newline: a string or f-string that spans lines, or a `\\` line continuation, in a script with CR LF line ends must be accepted; the value may keep or drop the CR".into(),
                "integer division/remainder by zero is C10's finding: input vectors with a zero divisor under the reference grouping are skipped".into(),
            ],
            bounds: json!({"families": fams, "operators": ops::OPS,
                           "max_binary_operators": tier.pick(3, 5), "max_binary_operators_with_unary": tier.pick(2, 3),
                           "int_literal_digits": 3, "hex_digits": 3,
                           "fstring_text_symbols": ["a", "é", "漢", "𝄞", " ", "{{", "}}", "\\n"],
                           "fstring_max_text_length_per_segment": lit::fstr_shapes(tier),
                           "line_continuation_whitespace_run": tier.pick(2, 3),
                           "identifier_characters": tier.pick("all ASCII + up to 64 per (XID_Start, XID_Continue, UTF-8 length) class, as first and as second character", "every Unicode scalar value as first and as second character"),
                           "forbidden_sequence_typings": "all 2^(k+1) for k <= 3; all-int, all-bool and every typing well typed under one of 6 fallback groupings for k >= 4",
                           "comments": tier.pick("one comment at every token gap", "one or two comments at every (pair of) token gap(s)")}),
            states_are: "distinct spellings / operator sequences (with unary mask)".into(),
            transitions_are: "compilations (parse+typecheck or full) and calls of compiled functions".into(),
        }
    }
    fn preflight(&self, cfg: &Cfg) -> Result<(), String> {
        dec::preflight()?;
        ops::preflight()?;
        // every family is random access and its counts are consistent
        for fam in lit::families(cfg.tier) {
            let n = fam.count(cfg.tier);
            if n == 0 {
                return Err(format!("family {} is empty", fam.name()));
            }
            for i in [0, n / 2, n - 1] {
                let a = fam.case(cfg.tier, i).json();
                let b = fam.case(cfg.tier, i).json();
                if a != b {
                    return Err(format!("family {} case {i} is not reproducible", fam.name()));
                }
            }
        }
        Ok(())
    }
    fn case_timeout_s(&self, cfg: &Cfg) -> f64 {
        cfg.tier.pick(20.0, 60.0)
    }
}

fn main() {
    // `c09 --list <family> [tier]`: print the cases of a family (for triage)
    let a: Vec<String> = std::env::args().collect();
    if a.len() >= 3 && a[1] == "--list" {
        let tier = if a.get(3).map(|s| s.as_str()) == Some("thorough") { Tier::Thorough } else { Tier::Quick };
        for fam in lit::families(tier) {
            if fam.name() == a[2] {
                for i in 0..fam.count(tier) {
                    println!("{}", fam.case(tier, i).json());
                }
            }
        }
        return;
    }
    // `c09 --probe FILE`: compile the script in FILE and print the error report (for triage)
    if a.len() >= 3 && a[1] == "--probe" {
        let src = std::fs::read_to_string(&a[2]).expect("readable file");
        let rt = host::runtime();
        match host::compile(&rt, &src) {
            Ok(_) => println!("compiles"),
            Err(e) => println!("{e:?}"),
        }
        return;
    }
    vcore::main(&C09)
}
