//! Independent decoders, written from docs/source/reference/language_reference.md
//! (sections Literals, Integers, Floating Point Numbers, Escape sequences,
//! String Formatting) and reference/std/{IpAddr,Prefix,Asn}. None of them calls
//! `str::parse`, `from_str_radix`, `rustc_literal_escaper` or the `std::net`
//! parsers that roto itself uses.

use std::net::{IpAddr, Ipv4Addr, Ipv6Addr};

// ------------------------------------------------------------------ integers

/// decimal digits with `_` anywhere ("Any number of underscores at any point")
pub fn dec_int(s: &str) -> Option<u128> {
    let mut v: u128 = 0;
    let mut any = false;
    for c in s.chars() {
        match c {
            '_' => {}
            '0'..='9' => {
                any = true;
                v = v.checked_mul(10)?.checked_add(c as u128 - '0' as u128)?;
            }
            _ => return None,
        }
    }
    any.then_some(v)
}

pub fn hex_digit(c: char) -> Option<u32> {
    match c {
        '0'..='9' => Some(c as u32 - '0' as u32),
        'a'..='f' => Some(c as u32 - 'a' as u32 + 10),
        'A'..='F' => Some(c as u32 - 'A' as u32 + 10),
        _ => None,
    }
}

/// hexadecimal digits (after `0x`), `_` ignored
pub fn dec_hex(s: &str) -> Option<u128> {
    let mut v: u128 = 0;
    let mut any = false;
    for c in s.chars() {
        if c == '_' {
            continue;
        }
        any = true;
        v = v.checked_mul(16)?.checked_add(hex_digit(c)? as u128)?;
    }
    any.then_some(v)
}

// ------------------------------------------------------------------ floats

/// little-endian base 2^32 natural number, just enough for decimal -> binary
#[derive(Clone, Debug, PartialEq)]
struct Big(Vec<u32>);

impl Big {
    fn from(mut v: u128) -> Big {
        let mut d = vec![];
        while v > 0 {
            d.push(v as u32);
            v >>= 32;
        }
        Big(d)
    }
    fn is_zero(&self) -> bool {
        self.0.is_empty()
    }
    fn trim(&mut self) {
        while self.0.last() == Some(&0) {
            self.0.pop();
        }
    }
    fn mul_small(&mut self, m: u32) {
        let mut carry = 0u64;
        for d in self.0.iter_mut() {
            let x = *d as u64 * m as u64 + carry;
            *d = x as u32;
            carry = x >> 32;
        }
        if carry > 0 {
            self.0.push(carry as u32);
        }
    }
    fn bits(&self) -> i64 {
        match self.0.last() {
            None => 0,
            Some(t) => (self.0.len() as i64 - 1) * 32 + (32 - t.leading_zeros() as i64),
        }
    }
    fn shl(&mut self, n: u32) {
        for _ in 0..n / 32 {
            self.0.insert(0, 0);
        }
        let r = n % 32;
        if r > 0 {
            let mut carry = 0u32;
            for d in self.0.iter_mut() {
                let x = ((*d as u64) << r) | carry as u64;
                *d = x as u32;
                carry = (x >> 32) as u32;
            }
            if carry > 0 {
                self.0.push(carry);
            }
        }
    }
    fn ge(&self, o: &Big) -> bool {
        if self.0.len() != o.0.len() {
            return self.0.len() > o.0.len();
        }
        for i in (0..self.0.len()).rev() {
            if self.0[i] != o.0[i] {
                return self.0[i] > o.0[i];
            }
        }
        true
    }
    /// self -= o (requires self >= o)
    fn sub(&mut self, o: &Big) {
        let mut borrow = 0i64;
        for i in 0..self.0.len() {
            let x = self.0[i] as i64 - borrow - *o.0.get(i).unwrap_or(&0) as i64;
            if x < 0 {
                self.0[i] = (x + (1 << 32)) as u32;
                borrow = 1;
            } else {
                self.0[i] = x as u32;
                borrow = 0;
            }
        }
        self.trim();
    }
}

/// A decimal number `mant * 10^exp10`
#[derive(Clone, Debug, PartialEq)]
pub struct Decimal {
    pub mant: u128,
    pub exp10: i64,
}

/// Float spelling `D+ [. D*] [(e|E) [+|-] D+]`, underscores ignored anywhere.
/// None: not of that shape (e.g. no exponent digits).
pub fn dec_float_text(s: &str) -> Option<Decimal> {
    let t: String = s.chars().filter(|c| *c != '_').collect();
    let (m, e) = match t.find(['e', 'E']) {
        Some(i) => (&t[..i], Some(&t[i + 1..])),
        None => (&t[..], None),
    };
    let (ip, fp) = match m.find('.') {
        Some(i) => (&m[..i], &m[i + 1..]),
        None => (m, ""),
    };
    if ip.is_empty() || !ip.chars().all(|c| c.is_ascii_digit()) || !fp.chars().all(|c| c.is_ascii_digit()) {
        return None;
    }
    let mant = dec_int(&format!("{ip}{fp}"))?;
    let mut exp10 = -(fp.len() as i64);
    if let Some(e) = e {
        let (neg, digits) = match e.as_bytes().first() {
            Some(b'+') => (false, &e[1..]),
            Some(b'-') => (true, &e[1..]),
            _ => (false, e),
        };
        if digits.is_empty() || !digits.chars().all(|c| c.is_ascii_digit()) {
            return None;
        }
        let x = dec_int(digits)? as i64;
        exp10 += if neg { -x } else { x };
    }
    Some(Decimal { mant, exp10 })
}

/// Correctly rounded (nearest, ties to even) binary float with `p` significant
/// bits: returns (mantissa in [2^(p-1), 2^p), exponent of the leading bit), or
/// None for zero.
fn round_binary(d: &Decimal, p: u32) -> Option<(u64, i64)> {
    if d.mant == 0 {
        return None;
    }
    let mut a = Big::from(d.mant);
    let mut b = Big::from(1);
    for _ in 0..d.exp10.max(0) {
        a.mul_small(10);
    }
    for _ in 0..(-d.exp10).max(0) {
        b.mul_small(10);
    }
    // scale so that a / b is in [1, 2)
    let mut s = a.bits() - b.bits();
    if s >= 0 {
        b.shl(s as u32);
    } else {
        a.shl((-s) as u32);
    }
    if !a.ge(&b) {
        a.shl(1);
        s -= 1;
    }
    let mut mant: u64 = 0;
    for _ in 0..p {
        let bit = if a.ge(&b) {
            a.sub(&b);
            1
        } else {
            0
        };
        mant = (mant << 1) | bit;
        a.shl(1);
    }
    let half = a.ge(&b);
    if half {
        a.sub(&b);
    }
    let sticky = !a.is_zero();
    if half && (sticky || mant & 1 == 1) {
        mant += 1;
        if mant == 1u64 << p {
            mant >>= 1;
            s += 1;
        }
    }
    Some((mant, s))
}

/// f64 bits of the decimal; None if outside the normal range (not zero)
pub fn to_f64_bits(d: &Decimal) -> Option<u64> {
    match round_binary(d, 53) {
        None => Some(0),
        Some((m, e)) => {
            let biased = e + 1023;
            if !(1..=2046).contains(&biased) {
                return None;
            }
            Some(((biased as u64) << 52) | (m & ((1u64 << 52) - 1)))
        }
    }
}

/// f32 bits rounded directly from the decimal; None outside the normal range
pub fn to_f32_bits(d: &Decimal) -> Option<u32> {
    match round_binary(d, 24) {
        None => Some(0),
        Some((m, e)) => {
            let biased = e + 127;
            if !(1..=254).contains(&biased) {
                return None;
            }
            Some(((biased as u32) << 23) | (m as u32 & ((1u32 << 23) - 1)))
        }
    }
}

// ------------------------------------------------------------------ strings

/// The escape table of "Escape sequences" applied to the inside of a string
/// or char literal. None: contains something the table does not define.
pub fn dec_string(s: &str) -> Option<String> {
    let cs: Vec<char> = s.chars().collect();
    let mut out = String::new();
    let mut i = 0;
    while i < cs.len() {
        let c = cs[i];
        if c != '\\' {
            out.push(c);
            i += 1;
            continue;
        }
        let e = *cs.get(i + 1)?;
        i += 2;
        match e {
            '0' => out.push('\u{0}'),
            't' => out.push('\u{9}'),
            'n' => out.push('\u{A}'),
            'r' => out.push('\u{D}'),
            '"' => out.push('\u{22}'),
            '\'' => out.push('\u{27}'),
            '\\' => out.push('\u{5C}'),
            'x' => {
                let h = hex_digit(*cs.get(i)?)?;
                let l = hex_digit(*cs.get(i + 1)?)?;
                i += 2;
                out.push(char::from_u32(h * 16 + l)?);
            }
            'u' => {
                if *cs.get(i)? != '{' {
                    return None;
                }
                i += 1;
                let mut v: u32 = 0;
                let mut n = 0;
                loop {
                    let c = *cs.get(i)?;
                    i += 1;
                    if c == '}' {
                        break;
                    }
                    v = v.checked_mul(16)?.checked_add(hex_digit(c)?)?;
                    n += 1;
                }
                if n == 0 {
                    return None;
                }
                out.push(char::from_u32(v)?);
            }
            '\n' => {
                // "ignore any whitespace after a `\` followed by a newline"
                while i < cs.len() && cs[i].is_whitespace() {
                    i += 1;
                }
            }
            _ => return None,
        }
    }
    Some(out)
}

/// Text part of an f-string: escapes as in strings, `{{` -> `{`, `}}` -> `}`.
/// None: a lone brace or an undefined escape.
pub fn dec_fstring_text(s: &str) -> Option<String> {
    // the doubled braces of the source text become single ones; escapes are
    // copied through untouched (an escape never counts as a brace, and the
    // braces of `\u{..}` belong to the escape), then decoded as in a string
    let cs: Vec<char> = s.chars().collect();
    let mut t = String::new();
    let mut i = 0;
    while i < cs.len() {
        match cs[i] {
            '{' | '}' => {
                if cs.get(i + 1) != Some(&cs[i]) {
                    return None;
                }
                t.push(cs[i]);
                i += 2;
            }
            '\\' => {
                t.push('\\');
                if let Some(c) = cs.get(i + 1) {
                    t.push(*c);
                }
                i += 2;
                if cs.get(i - 1) == Some(&'u') && cs.get(i) == Some(&'{') {
                    while i < cs.len() {
                        t.push(cs[i]);
                        i += 1;
                        if cs[i - 1] == '}' {
                            break;
                        }
                    }
                }
            }
            c => {
                t.push(c);
                i += 1;
            }
        }
    }
    dec_string(&t)
}

// ------------------------------------------------------------------ addresses

/// dotted quad, canonical decimal octets only
pub fn dec_ipv4(s: &str) -> Option<Ipv4Addr> {
    let parts: Vec<&str> = s.split('.').collect();
    if parts.len() != 4 {
        return None;
    }
    let mut o = [0u8; 4];
    for (i, p) in parts.iter().enumerate() {
        if p.is_empty() || p.len() > 3 || (p.len() > 1 && p.starts_with('0')) || p.contains('_') {
            return None;
        }
        let v = dec_int(p)?;
        if v > 255 {
            return None;
        }
        o[i] = v as u8;
    }
    Some(Ipv4Addr::new(o[0], o[1], o[2], o[3]))
}

/// RFC 4291 text form without embedded IPv4
pub fn dec_ipv6(s: &str) -> Option<Ipv6Addr> {
    fn groups(s: &str) -> Option<Vec<u16>> {
        if s.is_empty() {
            return Some(vec![]);
        }
        s.split(':')
            .map(|g| {
                if g.is_empty() || g.len() > 4 || g.contains('_') {
                    return None;
                }
                Some(dec_hex(g)? as u16)
            })
            .collect()
    }
    let g: Vec<u16> = match s.find("::") {
        Some(i) => {
            let head = groups(&s[..i])?;
            let tail_s = &s[i + 2..];
            if tail_s.contains("::") {
                return None;
            }
            let tail = groups(tail_s)?;
            if head.len() + tail.len() > 7 {
                return None;
            }
            let mut g = head;
            let z = 8 - g.len() - tail.len();
            g.extend(std::iter::repeat_n(0, z));
            g.extend(tail);
            g
        }
        None => groups(s)?,
    };
    if g.len() != 8 {
        return None;
    }
    Some(Ipv6Addr::new(g[0], g[1], g[2], g[3], g[4], g[5], g[6], g[7]))
}

/// address with all bits after the first `len` cleared
pub fn mask(ip: IpAddr, len: u8) -> IpAddr {
    match ip {
        IpAddr::V4(a) => {
            let o = a.octets();
            let v = ((o[0] as u32) << 24) | ((o[1] as u32) << 16) | ((o[2] as u32) << 8) | o[3] as u32;
            let m = if len == 0 { 0 } else { !0u32 << (32 - len as u32) };
            let v = v & m;
            IpAddr::V4(Ipv4Addr::new((v >> 24) as u8, (v >> 16) as u8, (v >> 8) as u8, v as u8))
        }
        IpAddr::V6(a) => {
            let mut v: u128 = 0;
            for o in a.octets() {
                v = (v << 8) | o as u128;
            }
            let m = if len == 0 { 0 } else { !0u128 << (128 - len as u32) };
            let v = v & m;
            let mut s = [0u16; 8];
            for (i, x) in s.iter_mut().enumerate() {
                *x = (v >> (112 - 16 * i)) as u16;
            }
            IpAddr::V6(Ipv6Addr::new(s[0], s[1], s[2], s[3], s[4], s[5], s[6], s[7]))
        }
    }
}

// ------------------------------------------------------------------ self-test

/// Sanity of the decoders on constants whose values are known from the
/// standards, plus agreement with the Rust library on a grid (the library is
/// not the oracle; a disagreement is a machinery error to be looked at).
pub fn preflight() -> Result<(), String> {
    let chk = |c: bool, m: &str| if c { Ok(()) } else { Err(format!("decoder self-test failed: {m}")) };
    chk(dec_int("1_000_000") == Some(1_000_000), "int underscores")?;
    chk(dec_hex("fF") == Some(255), "hex")?;
    chk(dec_float_text("1_234.567") == Some(Decimal { mant: 1234567, exp10: -3 }), "float text")?;
    chk(dec_float_text("5E-5") == Some(Decimal { mant: 5, exp10: -5 }), "float exp")?;
    chk(dec_float_text("1e") == None, "float no exp digits")?;
    // IEEE constants: 1.0, 0.1, 1e22, 1e23 (needs correct rounding), 16777217 as f32 (tie to even)
    let f = |s: &str| to_f64_bits(&dec_float_text(s).unwrap());
    chk(f("1.0") == Some(0x3FF0000000000000), "1.0")?;
    chk(f("0.1") == Some(0x3FB999999999999A), "0.1")?;
    chk(f("1e22") == Some(0x4480F0CF064DD592), "1e22")?;
    chk(f("1e23") == Some(0x44B52D02C7E14AF6), "1e23")?;
    chk(f("0.0e9") == Some(0), "zero")?;
    chk(f("9e99") == Some(9e99f64.to_bits()), "9e99")?;
    chk(to_f32_bits(&dec_float_text("16777217.0").unwrap()) == Some(0x4B800000), "f32 tie")?;
    chk(to_f32_bits(&dec_float_text("0.1").unwrap()) == Some(0x3DCCCCCD), "f32 0.1")?;
    chk(to_f32_bits(&dec_float_text("1e39").unwrap()).is_none(), "f32 overflow is left open")?;
    for ip in 0..200u32 {
        for fr in ["", ".", ".5", ".25", ".07"] {
            for ex in ["", "e0", "e1", "E22", "e23", "e-1", "e-22", "e-23", "e99", "e-99", "e+38"] {
                let s = format!("{ip}{fr}{ex}");
                let Some(d) = dec_float_text(&s) else { continue };
                let lib: f64 = if fr.is_empty() && ex.is_empty() { ip as f64 } else { s.parse().map_err(|_| format!("lib cannot parse {s}"))? };
                if to_f64_bits(&d) != Some(lib.to_bits()) {
                    return Err(format!("decoder and library disagree on {s}: {:?} vs {:#x}", to_f64_bits(&d), lib.to_bits()));
                }
            }
        }
    }
    chk(dec_string(r#"a\0\t\n\r\"\'\\\x41\u{10FFFF}"#) == Some("a\0\t\n\r\"'\\A\u{10FFFF}".into()), "escapes")?;
    chk(dec_string("a\\\n  \t b") == Some("ab".into()), "line continuation")?;
    chk(dec_string(r"\u{D800}").is_none() && dec_string(r"\q").is_none(), "undefined escapes")?;
    chk(dec_fstring_text(r"x is {{ x }}\n") == Some("x is { x }\n".into()), "f-string braces")?;
    chk(dec_fstring_text(r"\x7b\x7b|\u{7d}\u{7d}{{\u{7b}") == Some("{{|}}{{".into()), "f-string escaped braces")?;
    chk(dec_ipv4("192.0.2.255") == Some(Ipv4Addr::new(192, 0, 2, 255)) && dec_ipv4("01.1.1.1").is_none(), "ipv4")?;
    chk(
        dec_ipv6("2001:DB8:2CA1:0000:0000:0567:5673:23b5")
            == Some(Ipv6Addr::new(0x2001, 0xdb8, 0x2ca1, 0, 0, 0x567, 0x5673, 0x23b5)),
        "ipv6 full",
    )?;
    chk(dec_ipv6("::") == Some(Ipv6Addr::UNSPECIFIED) && dec_ipv6("::1") == Some(Ipv6Addr::LOCALHOST), "ipv6 ::")?;
    chk(dec_ipv6("1::2:3") == Some(Ipv6Addr::new(1, 0, 0, 0, 0, 0, 2, 3)), "ipv6 mid")?;
    chk(dec_ipv6("1:2:3:4::5:6:7:8").is_none() && dec_ipv6("1::2::3").is_none(), "ipv6 invalid")?;
    chk(mask(IpAddr::V4(Ipv4Addr::new(192, 168, 1, 77)), 20) == IpAddr::V4(Ipv4Addr::new(192, 168, 0, 0)), "mask4")?;
    chk(mask(IpAddr::V6(Ipv6Addr::LOCALHOST), 127) == IpAddr::V6(Ipv6Addr::UNSPECIFIED), "mask6")?;
    Ok(())
}
