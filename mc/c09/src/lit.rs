//! The enumerated families of spellings (literals, identifiers, comments).
//! Every family is random access: `case(tier, idx)` rebuilds case `idx`.

use std::net::IpAddr;
use std::sync::OnceLock;

use vcore::util::decode;
use vcore::{Tier, json};

use crate::dec::*;
use crate::run::{Case, INT_TYS, Prog, Ty, Val};

#[derive(Clone, Copy, Debug, PartialEq)]
pub enum Fam {
    IntDec(usize),
    IntNeg,
    IntBound,
    Hex(usize),
    HexBound,
    HexExtra,
    FloatCore,
    FloatUnd,
    StrEsc,
    StrCont,
    StrRaw,
    CharLit,
    FStr(usize),
    FStrBrace(usize),
    FStrExtra,
    LitPos,
    Ipv4,
    Ipv6,
    Ipv6All,
    Asn,
    Prefix,
    IdentFirst,
    IdentSecond,
    Keyword,
    Comment,
    Shebang,
}

pub fn families(tier: Tier) -> Vec<Fam> {
    use Fam::*;
    let mut v = vec![
        IntDec(1), IntDec(2), Hex(1), Hex(2), IntBound, IntNeg, HexBound, HexExtra, Keyword, Shebang, Comment,
        CharLit, StrEsc, StrCont, StrRaw, FStrExtra, Asn, Ipv4, Ipv6, Prefix,
        IdentFirst, IdentSecond, IntDec(3), Hex(3), FloatUnd, FloatCore,
    ];
    for i in 0..fstr_shapes(tier).len() {
        v.insert(16 + i, FStr(i));
    }
    for i in 0..fbrace_shapes(tier).len() {
        v.insert(16 + i, FStrBrace(i));
    }
    v.insert(8, LitPos);
    if tier == Tier::Thorough {
        v.push(Ipv6All);
    }
    v
}

impl Fam {
    pub fn name(self) -> String {
        format!("{self:?}")
    }
    pub fn chunk(self, tier: Tier) -> u64 {
        match self {
            Fam::Keyword | Fam::Comment | Fam::Shebang | Fam::LitPos => 400,
            Fam::IdentFirst | Fam::IdentSecond => tier.pick(400, 4096),
            _ => tier.pick(1500, 3000),
        }
    }
    pub fn count(self, tier: Tier) -> u64 {
        match self {
            Fam::IntDec(3) if tier == Tier::Quick => 1000 * 20 + 1000 * 7 * QUICK3_COMBOS.len() as u64,
            Fam::IntDec(n) => 10u64.pow(n as u32) * us_opts(n, tier).pow(n as u32) * 20,
            Fam::IntNeg => 1110 * 12 * 2,
            Fam::IntBound => BOUND_VALUES.len() as u64 * 5 * 20 * 2,
            Fam::Hex(n) => 22u64.pow(n as u32) * hex_ctx(n, tier).len() as u64,
            Fam::HexBound => HEX_BOUND.len() as u64 * 2 * 8,
            Fam::HexExtra => HEX_EXTRA_D.len() as u64 * HEX_EXTRA_FORMS as u64 * HEX_EXTRA_CTX.len() as u64,
            Fam::FloatCore => {
                let (i, f, e) = float_lists(tier);
                (i.len() * f.len() * e.len() * 4) as u64
            }
            Fam::FloatUnd => *fund_table(tier).1.last().unwrap(),
            Fam::StrEsc => esc_items().len() as u64 * 6,
            Fam::StrCont => (ws_runs(tier.pick(2, 3)).len() * 4 * 3 + CRLF_RUNS.len() * 2 * 3) as u64,
            Fam::StrRaw => n_texts(RAW.len() as u64, tier.pick(2, 3)),
            Fam::CharLit => (esc_items().len() + RAW_CHARS.len()) as u64,
            Fam::FStr(i) => fstr_shapes(tier)[i].iter().map(|l| n_texts(8, *l)).product(),
            Fam::FStrBrace(i) => fbrace_shapes(tier)[i].iter().map(|l| n_texts(FBRACE.len() as u64, *l)).product(),
            Fam::FStrExtra => FSTR_EXTRA.len() as u64,
            Fam::LitPos => (LITPOS.len() * POSITIONS.len()) as u64,
            Fam::Ipv4 => 9u64.pow(4),
            Fam::Ipv6 => 36 * 16 + 16,
            Fam::Ipv6All => 1593 + 65536,
            Fam::Asn => 1110 + ASN_EXTRA.len() as u64,
            Fam::Prefix => (PFX4.len() * 33 * 8 + PFX6.len() * 129 * 8) as u64,
            Fam::IdentFirst | Fam::IdentSecond => match tier {
                Tier::Quick => ident_reps().len() as u64,
                Tier::Thorough => 0x110000 - 0x800,
            },
            Fam::Keyword => (WORDS.len() * KW_TEMPLATES.len()) as u64,
            Fam::Comment => {
                let g = (comment_tokens().len() + 1) as u64;
                let c = COMMENTS.len() as u64;
                match tier {
                    Tier::Quick => g * c + c,
                    Tier::Thorough => g * c + c + g * (g - 1) / 2 * c * c,
                }
            }
            Fam::Shebang => (SHEBANGS.len() * 2 * 4) as u64,
        }
    }
    pub fn case(self, tier: Tier, idx: u64) -> Case {
        match self {
            Fam::IntDec(n) => int_dec(n, tier, idx),
            Fam::IntNeg => int_neg(idx),
            Fam::IntBound => int_bound(idx),
            Fam::Hex(n) => hex_n(n, tier, idx),
            Fam::HexBound => hex_bound(idx),
            Fam::HexExtra => hex_extra(idx),
            Fam::FloatCore => float_core(tier, idx),
            Fam::FloatUnd => float_und(tier, idx),
            Fam::StrEsc => str_esc(idx),
            Fam::StrCont => str_cont(tier, idx),
            Fam::StrRaw => str_raw(tier, idx),
            Fam::CharLit => char_lit(idx),
            Fam::FStr(i) => fstr(i, tier, idx),
            Fam::FStrBrace(i) => fstr_brace(i, tier, idx),
            Fam::FStrExtra => fstr_extra(idx),
            Fam::LitPos => lit_pos(idx),
            Fam::Ipv4 => ipv4(idx),
            Fam::Ipv6 => ipv6(idx),
            Fam::Ipv6All => ipv6_all(idx),
            Fam::Asn => asn(idx),
            Fam::Prefix => prefix(idx),
            Fam::IdentFirst => ident(tier, idx, true),
            Fam::IdentSecond => ident(tier, idx, false),
            Fam::Keyword => keyword(idx),
            Fam::Comment => comment(tier, idx),
            Fam::Shebang => shebang(idx),
        }
    }
}

// ------------------------------------------------------------------ numbers

const SUF: [Ty; 10] = [Ty::U8, Ty::U16, Ty::U32, Ty::U64, Ty::I8, Ty::I16, Ty::I32, Ty::I64, Ty::F32, Ty::F64];
const US: [&str; 3] = ["", "_", "__"];
const I64_MAX: u128 = i64::MAX as u128;

fn us_opts(n: usize, tier: Tier) -> u64 {
    if n == 3 && tier == Tier::Quick { 2 } else { 3 }
}

/// (suffix text, type of the context) of combination `c` in 0..20
fn suffix_combo(c: u64) -> (&'static str, Ty) {
    if c < 10 { (SUF[c as usize].roto(), SUF[c as usize]) } else { ("", SUF[c as usize - 10]) }
}

fn with_sign(bits: u64, neg: bool, top: u32) -> u64 {
    if neg { bits | (1u64 << top) } else { bits }
}

/// expected float values of a decimal in a float context
fn float_expect(ctx: Ty, d: &Decimal, neg: bool) -> Vec<Val> {
    let mut v = vec![];
    match ctx {
        Ty::F64 => {
            if let Some(b) = to_f64_bits(d) {
                v.push(Val::F64(with_sign(b, neg, 63)));
                if b == 0 && neg {
                    v.push(Val::F64(0));
                }
            }
        }
        Ty::F32 => {
            // the docs do not say whether an f32 literal is rounded once or via
            // f64 (DESIGN §1: double rounding is left open): both are accepted
            if let Some(b) = to_f32_bits(d) {
                v.push(Val::F32(with_sign(b as u64, neg, 31) as u32));
                if let Some(b64) = to_f64_bits(d) {
                    let via = (f64::from_bits(b64) as f32).to_bits();
                    let via = with_sign(via as u64, neg, 31) as u32;
                    if !v.contains(&Val::F32(via)) {
                        v.push(Val::F32(via));
                    }
                }
                if b == 0 && neg {
                    v.push(Val::F32(0));
                }
            }
        }
        _ => {}
    }
    v
}

/// fill in expectation for an integer spelling of magnitude `mag`
fn judge_int(c: &mut Case, ctx: Ty, mag: u128, neg: bool, grammar_ok: bool) {
    if ctx.is_int() {
        let v = if neg { -(mag as i128) } else { mag as i128 };
        let (lo, hi) = ctx.int_range();
        if v >= lo && v <= hi {
            c.expect = vec![Val::Int(v)];
            // the literal proper is the magnitude: it has to be a value of the type
            let lit_in_range = (mag as i128) <= hi;
            if mag > I64_MAX {
                // documented range of u64, but the docs do not promise a literal
                // for every value; observed and reported, not judged
                c.tags["above_i64_max"] = json!(true);
            } else {
                c.must_accept = grammar_ok && lit_in_range;
            }
        } else {
            c.tags["out_of_range"] = json!(true);
        }
    } else {
        // `10f32`, or an integer spelling where a float is expected: not a
        // documented float form ("need either a `.`, `e` or `E`"), judged only
        // if accepted
        c.expect = float_expect(ctx, &Decimal { mant: mag, exp10: 0 }, neg);
    }
}

/// quick tier, three digits: every digit string with every suffix / context
/// without underscores, and every `_` placement (none doubled) with these
/// combinations only: `u8` suffix, `f32` suffix, no suffix as u16, as i64
const QUICK3_COMBOS: [u64; 4] = [0, 8, 11, 17];

fn int_dec(n: usize, tier: Tier, idx: u64) -> Case {
    let o = us_opts(n, tier);
    let mut rad = vec![10u64.pow(n as u32)];
    rad.extend(std::iter::repeat_n(o, n));
    rad.push(20);
    let d = if n == 3 && tier == Tier::Quick {
        if idx < 20000 {
            let d = decode(idx, &[1000, 20]);
            vec![d[0], 0, 0, 0, d[1]]
        } else {
            let d = decode(idx - 20000, &[1000, 7, QUICK3_COMBOS.len() as u64]);
            let us = d[1] + 1;
            vec![d[0], us >> 2 & 1, us >> 1 & 1, us & 1, QUICK3_COMBOS[d[2] as usize]]
        }
    } else {
        decode(idx, &rad)
    };
    let digits = format!("{:0w$}", d[0], w = n);
    let mut s = String::new();
    for (i, ch) in digits.chars().enumerate() {
        s.push(ch);
        s += US[d[1 + i] as usize];
    }
    let (suf, ctx) = suffix_combo(d[n + 1]);
    let mut c = Case::new("int", ctx, format!("{s}{suf}"));
    c.prog = Prog::Tail(format!("() -> {} {{ {s}{suf} }}", ctx.roto()));
    let mag = dec_int(&s).unwrap();
    judge_int(&mut c, ctx, mag, false, true);
    c
}

fn digit_string(i: u64) -> String {
    if i < 10 {
        format!("{i}")
    } else if i < 110 {
        format!("{:02}", i - 10)
    } else {
        format!("{:03}", i - 110)
    }
}

const NEG_COMBOS: [(&str, Ty); 12] = [
    ("i8", Ty::I8), ("i16", Ty::I16), ("i32", Ty::I32), ("i64", Ty::I64), ("f32", Ty::F32), ("f64", Ty::F64),
    ("", Ty::I8), ("", Ty::I16), ("", Ty::I32), ("", Ty::I64), ("", Ty::F32), ("", Ty::F64),
];

fn int_neg(idx: u64) -> Case {
    let d = decode(idx, &[1110, 12, 2]);
    let digits = digit_string(d[0]);
    let (suf, ctx) = NEG_COMBOS[d[1] as usize];
    let sp = if d[2] == 0 { format!("-{digits}{suf}") } else { format!("- {digits}{suf}") };
    let mut c = Case::new("int-neg", ctx, sp);
    judge_int(&mut c, ctx, dec_int(&digits).unwrap(), true, true);
    c
}

const BOUND_VALUES: [u128; 16] = [
    127, 128, 255, 256, 32767, 32768, 65535, 65536, 2147483647, 2147483648, 4294967295, 4294967296,
    9223372036854775807, 9223372036854775808, 18446744073709551615, 18446744073709551616,
];

fn underscore_style(s: &str, style: u64) -> String {
    let n = s.len();
    let mut out = String::new();
    for (i, ch) in s.chars().enumerate() {
        out.push(ch);
        let left = n - 1 - i;
        match style {
            1 if left > 0 && left % 3 == 0 => out.push('_'),
            2 => out.push('_'),
            3 if left == 0 => out.push('_'),
            4 if left > 0 && left % 3 == 0 => out += "__",
            _ => {}
        }
    }
    out
}

fn int_bound(idx: u64) -> Case {
    let d = decode(idx, &[BOUND_VALUES.len() as u64, 5, 20, 2]);
    let v = BOUND_VALUES[d[0] as usize];
    let s = underscore_style(&v.to_string(), d[1]);
    let (suf, ctx) = suffix_combo(d[2]);
    let neg = d[3] == 1;
    let sp = format!("{}{s}{suf}", if neg { "-" } else { "" });
    let mut c = Case::new("int-bound", ctx, sp);
    let mag = dec_int(&s).unwrap();
    assert_eq!(mag, v);
    judge_int(&mut c, ctx, mag, neg, true);
    c
}

const HEXA: &[u8] = b"0123456789abcdefABCDEF";

fn judge_hex(c: &mut Case, ctx: Ty, mag: u128, neg: bool, grammar_ok: bool) {
    judge_int(c, ctx, mag, neg, grammar_ok);
}

fn hex_ctx(n: usize, tier: Tier) -> &'static [Ty] {
    if n == 3 && tier == Tier::Quick { &[Ty::U8, Ty::I16, Ty::U32, Ty::I64] } else { &INT_TYS }
}

fn hex_n(n: usize, tier: Tier, idx: u64) -> Case {
    let ctxs = hex_ctx(n, tier);
    let mut rad = vec![22u64; n];
    rad.push(ctxs.len() as u64);
    let d = decode(idx, &rad);
    let digits: String = d[..n].iter().map(|i| HEXA[*i as usize] as char).collect();
    let ctx = ctxs[d[n] as usize];
    let mut c = Case::new("hex", ctx, format!("0x{digits}"));
    judge_hex(&mut c, ctx, dec_hex(&digits).unwrap(), false, true);
    c
}

const HEX_BOUND: [&str; 19] = [
    "7f", "80", "ff", "100", "7fff", "8000", "ffff", "10000", "7fffffff", "80000000", "ffffffff", "100000000",
    "7fffffffffffffff", "8000000000000000", "ffffffffffffffff", "10000000000000000", "1f32", "1f64", "00ff",
];

fn hex_bound(idx: u64) -> Case {
    let d = decode(idx, &[HEX_BOUND.len() as u64, 2, 8]);
    let digits = HEX_BOUND[d[0] as usize];
    let digits = if d[1] == 1 { digits.to_uppercase() } else { digits.to_string() };
    let ctx = INT_TYS[d[2] as usize];
    let mut c = Case::new("hex-bound", ctx, format!("0x{digits}"));
    judge_hex(&mut c, ctx, dec_hex(&digits).unwrap(), false, true);
    c
}

const HEX_EXTRA_D: [&str; 7] = ["f", "ff", "1f", "7F", "abc", "ABC", "fF"];
const HEX_EXTRA_FORMS: usize = 11;
const HEX_EXTRA_CTX: [Ty; 5] = [Ty::U8, Ty::U16, Ty::I32, Ty::I64, Ty::U64];

/// hex spellings the docs do not list (underscores, suffixes, `0X`, sign):
/// judged only if accepted, with the reading "digits are digits, `_` groups,
/// a suffix names the type"
fn hex_extra(idx: u64) -> Case {
    let d = decode(idx, &[HEX_EXTRA_D.len() as u64, HEX_EXTRA_FORMS as u64, HEX_EXTRA_CTX.len() as u64]);
    let dg = HEX_EXTRA_D[d[0] as usize];
    let ctx = HEX_EXTRA_CTX[d[2] as usize];
    let t = ctx.roto();
    let (sp, neg, listed, defined) = match d[1] {
        0 => (format!("0X{dg}"), false, false, true),
        1 => (format!("0x_{dg}"), false, false, true),
        2 => (format!("0x{dg}_"), false, false, true),
        3 => (format!("0x{}_{}", &dg[..1], &dg[1..]), false, false, true),
        4 => (format!("0x{dg}{t}"), false, false, !t.starts_with('f')),
        5 => (format!("0x{dg}_{t}"), false, false, true),
        6 => (format!("-0x{dg}"), true, false, true),
        7 => (format!("0x0{dg}"), false, true, true),
        8 => (format!("0x000000{dg}"), false, true, true),
        9 => ("0x".to_string(), false, false, false),
        _ => (format!("0x{dg}g"), false, false, false),
    };
    let mut c = Case::new("hex-extra", ctx, sp);
    if defined {
        judge_hex(&mut c, ctx, dec_hex(dg).unwrap(), neg, listed);
        if !listed {
            c.must_accept = false;
        }
    }
    c
}

// ------------------------------------------------------------------ floats

type FloatLists = (Vec<String>, Vec<String>, Vec<String>);

fn float_lists(tier: Tier) -> &'static FloatLists {
    static Q: OnceLock<FloatLists> = OnceLock::new();
    static T: OnceLock<FloatLists> = OnceLock::new();
    let build = |tier: Tier| -> FloatLists {
        let ints: Vec<String> = match tier {
            Tier::Quick => ["0", "1", "5", "9", "10", "42", "99", "123"].iter().map(|s| s.to_string()).collect(),
            Tier::Thorough => {
                ["0", "1", "5", "9", "10", "42", "99", "100", "123", "999", "00", "01"].iter().map(|s| s.to_string()).collect()
            }
        };
        let digs: Vec<u32> = match tier {
            Tier::Quick => vec![0, 1, 5, 9],
            Tier::Thorough => (0..10).collect(),
        };
        let mut fr = vec!["".to_string(), ".".to_string()];
        for a in &digs {
            fr.push(format!(".{a}"));
        }
        for a in &digs {
            for b in &digs {
                fr.push(format!(".{a}{b}"));
            }
        }
        let ds: Vec<String> = match tier {
            Tier::Quick => ["", "0", "1", "2", "9", "10", "22", "23", "38", "39", "99"].iter().map(|s| s.to_string()).collect(),
            Tier::Thorough => {
                let mut v = vec!["".to_string()];
                v.extend((0..10).map(|i| format!("{i}")));
                v.extend([0, 1, 5, 9, 10, 11, 15, 16, 17, 20, 22, 23, 30, 37, 38, 39, 44, 45, 46, 99].map(|i| format!("{i:02}")));
                v
            }
        };
        let mut ex = vec!["".to_string()];
        for e in ["e", "E"] {
            for sg in ["", "+", "-"] {
                for d in &ds {
                    ex.push(format!("{e}{sg}{d}"));
                }
            }
        }
        (ints, fr, ex)
    };
    match tier {
        Tier::Quick => Q.get_or_init(|| build(Tier::Quick)),
        Tier::Thorough => T.get_or_init(|| build(Tier::Thorough)),
    }
}

const FSUF: [(&str, Ty); 4] = [("", Ty::F64), ("", Ty::F32), ("f64", Ty::F64), ("f32", Ty::F32)];

/// is the (underscore-free) numeric text one of the documented float forms
/// `0.0`, `10.`, `10e5`, `5E-5`, `10.2f32`?
fn documented_float_form(frac: &str, exp: &str, suffix: &str) -> bool {
    if frac.is_empty() && exp.is_empty() {
        return false; // an integer
    }
    if frac == "." && exp.is_empty() && !suffix.is_empty() {
        return false; // `10.f32` reads as a field access on `10`
    }
    if !exp.is_empty() {
        let body = &exp[1..];
        // `5E-5` (language reference, floats) and `1e+10` (syntax overview) are both shown:
        // an explicit sign of either kind is a documented spelling (seeded change C09-5
        // rejected the `+` form and went unnoticed while this said "only `5E-5` is shown")
        let digits = body.trim_start_matches(['-', '+']);
        if digits.is_empty() {
            return false;
        }
        if frac == "." {
            return false; // `10.e5` reads as a field access on `10`
        }
    }
    true
}

fn float_core(tier: Tier, idx: u64) -> Case {
    let (ints, fr, ex) = float_lists(tier);
    let d = decode(idx, &[ints.len() as u64, fr.len() as u64, ex.len() as u64, 4]);
    let (ip, f, e) = (&ints[d[0] as usize], &fr[d[1] as usize], &ex[d[2] as usize]);
    let (suf, ctx) = FSUF[d[3] as usize];
    let num = format!("{ip}{f}{e}");
    let mut c = Case::new("float", ctx, format!("{num}{suf}"));
    if let Some(dv) = dec_float_text(&num) {
        c.expect = float_expect(ctx, &dv, false);
        c.must_accept = documented_float_form(f, e, suf) && !c.expect.is_empty();
    }
    c
}

struct FBase {
    ip: &'static str,
    fr: &'static str,
    ex: &'static str,
}

/// (bases, prefix sums of case counts)
fn fund_table(tier: Tier) -> &'static (Vec<FBase>, Vec<u64>) {
    static Q: OnceLock<(Vec<FBase>, Vec<u64>)> = OnceLock::new();
    static T: OnceLock<(Vec<FBase>, Vec<u64>)> = OnceLock::new();
    let build = |opts: u64| {
        let mut bases = vec![];
        let mut sums = vec![0u64];
        for ip in ["1", "12", "123"] {
            for fr in ["", ".", ".5", ".25"] {
                for ex in ["", "e2", "E+2", "e-2", "e10"] {
                    if fr.is_empty() && ex.is_empty() {
                        continue;
                    }
                    let len = (ip.len() + fr.len() + ex.len()) as u32;
                    sums.push(sums.last().unwrap() + opts.pow(len) * 4);
                    bases.push(FBase { ip, fr, ex });
                }
            }
        }
        (bases, sums)
    };
    match tier {
        Tier::Quick => Q.get_or_init(|| build(2)),
        Tier::Thorough => T.get_or_init(|| build(3)),
    }
}

fn float_und(tier: Tier, idx: u64) -> Case {
    let (bases, sums) = fund_table(tier);
    let opts: u64 = tier.pick(2, 3);
    let b = sums.partition_point(|s| *s <= idx) - 1;
    let base = &bases[b];
    let text = format!("{}{}{}", base.ip, base.fr, base.ex);
    let mut rad = vec![opts; text.len()];
    rad.push(4);
    let d = decode(idx - sums[b], &rad);
    let mut num = String::new();
    let mut digit_group_only = true;
    for (i, ch) in text.chars().enumerate() {
        num.push(ch);
        if d[i] > 0 {
            num += US[d[i] as usize];
            if !ch.is_ascii_digit() {
                digit_group_only = false;
            }
        }
    }
    let (suf, ctx) = FSUF[d[text.len()] as usize];
    let mut c = Case::new("float-underscore", ctx, format!("{num}{suf}"));
    if let Some(dv) = dec_float_text(&num) {
        c.expect = float_expect(ctx, &dv, false);
        c.must_accept = digit_group_only && documented_float_form(base.fr, base.ex, suf) && !c.expect.is_empty();
    }
    c
}

// ------------------------------------------------------------------ strings

pub struct EscItem {
    pub text: String,
    /// listed in the documentation
    pub must: bool,
}

const U_BOUND: [u32; 13] = [0, 0x7F, 0x80, 0x7FF, 0x800, 0xD7FF, 0xD800, 0xDFFF, 0xE000, 0xFFFF, 0x10000, 0x10FFFF, 0x110000];

pub fn esc_items() -> &'static Vec<EscItem> {
    static L: OnceLock<Vec<EscItem>> = OnceLock::new();
    L.get_or_init(|| {
        let mut v: Vec<EscItem> = vec![];
        let mut push = |text: String, must: bool| {
            if !v.iter().any(|e| e.text == text) {
                v.push(EscItem { text, must });
            }
        };
        for e in ["\\0", "\\t", "\\n", "\\r", "\\\"", "\\'", "\\\\"] {
            push(e.to_string(), true);
        }
        for n in 0..256u32 {
            // "\x followed by 2 hexadecimal digits"; above 7F the escaped value
            // would have to be U+0080..U+00FF, which Rust-style escapes refuse:
            // not demanded, judged if accepted
            push(format!("\\x{n:02x}"), n < 0x80);
            push(format!("\\x{n:02X}"), n < 0x80);
        }
        for b in U_BOUND {
            let h = format!("{b:x}");
            for w in 1..=6usize {
                if h.len() <= w {
                    let valid = char::from_u32(b).is_some();
                    push(format!("\\u{{{:0>w$}}}", h, w = w), valid);
                    push(format!("\\u{{{:0>w$}}}", h.to_uppercase(), w = w), valid);
                }
            }
        }
        for e in ["\\u{}", "\\u{0000041}", "\\u{4_1}", "\\u{_41}", "\\u41", "\\U{41}", "\\a", "\\{", "\\}", "\\x4", "\\xg0", "\\u{41", "\\ "] {
            push(e.to_string(), false);
        }
        v
    })
}

fn str_esc(idx: u64) -> Case {
    let items = esc_items();
    let d = decode(idx, &[items.len() as u64, 6]);
    let it = &items[d[0] as usize];
    let x = &it.text;
    let content = match d[1] {
        0 => x.to_string(),
        1 => format!("{x}ab"),
        2 => format!("a{x}b"),
        3 => format!("ab{x}"),
        4 => format!("é{x}漢"),
        _ => format!("{x}{x}"),
    };
    let mut c = Case::new("string-escape", Ty::Str, format!("\"{content}\""));
    if let Some(s) = dec_string(&content) {
        c.expect = vec![Val::Str(s)];
        c.must_accept = it.must;
    }
    c.tags = json!({"escape": x});
    c
}

fn ws_runs(max: usize) -> Vec<String> {
    let ws = [' ', '\t', '\n', '\r'];
    let mut v = vec![String::new()];
    let mut last = vec![String::new()];
    for _ in 0..max {
        let mut next = vec![];
        for s in &last {
            for w in ws {
                next.push(format!("{s}{w}"));
            }
        }
        v.extend(next.iter().cloned());
        last = next;
    }
    v
}

fn str_cont(tier: Tier, idx: u64) -> Case {
    let runs = ws_runs(tier.pick(2, 3));
    let main = (runs.len() * 12) as u64;
    let (content, must) = if idx < main {
        let d = decode(idx, &[runs.len() as u64, 4, 3]);
        let tail = ["b", "é", "", "\\n"][d[1] as usize];
        let head = ["a", "", "é"][d[2] as usize];
        (format!("{head}\\\n{}{tail}", runs[d[0] as usize]), true)
    } else {
        // `\` followed by CR LF: the newline of a script saved with Windows
        // line ends ("ignore any whitespace after a `\` followed by a newline")
        let d = decode(idx - main, &[CRLF_RUNS.len() as u64, 2, 3]);
        let run = CRLF_RUNS[d[0] as usize];
        let tail = ["b", ""][d[1] as usize];
        let head = ["a", "", "é"][d[2] as usize];
        (format!("{head}\\\r\n{run}{tail}"), true)
    };
    let mut c = Case::new("string-continuation", Ty::Str, format!("\"{content}\""));
    let crlf = idx >= main;
    if must {
        // CR LF counts as the newline: decode the LF form of the same text
        c.expect = vec![Val::Str(dec_string(&content.replace("\r\n", "\n")).unwrap())];
        c.must_accept = true;
    }
    c.tags = json!({"crlf_line_end": crlf});
    c
}

const CRLF_RUNS: [&str; 6] = ["", " ", "\t", "\r\n", "  ", " \r\n "];

/// number of texts of length <= l over an alphabet of n symbols
fn n_texts(n: u64, l: usize) -> u64 {
    (0..=l as u32).map(|i| n.pow(i)).sum()
}

/// the idx-th text (shortest first) over `alpha`
fn text_of(alpha: &[&str], mut idx: u64) -> String {
    let n = alpha.len() as u64;
    let mut len = 0u32;
    while idx >= n.pow(len) {
        idx -= n.pow(len);
        len += 1;
    }
    let d = decode(idx, &vec![n; len as usize]);
    d.iter().map(|i| alpha[*i as usize]).collect()
}

const RAW: [&str; 14] = ["a", "é", "漢", "𝄞", " ", "\n", "\t", "'", "{", "}", "//", "#", "f", "\r\n"];

fn str_raw(_tier: Tier, idx: u64) -> Case {
    let content = text_of(&RAW, idx);
    let mut c = Case::new("string-raw", Ty::Str, format!("\"{content}\""));
    c.expect = vec![Val::Str(content.clone())];
    // the only carriage returns here are the CR of a CR LF line end (a string
    // that spans lines in a script saved with Windows line ends); whether the
    // value keeps the CR is not documented: both readings are accepted
    if content.contains('\r') {
        c.expect.push(Val::Str(content.replace("\r\n", "\n")));
    }
    c.must_accept = true;
    c.tags = json!({"crlf_line_end": content.contains('\r')});
    c
}

const RAW_CHARS: [char; 15] = ['a', 'Z', '0', ' ', 'é', '漢', '𝄞', '"', '{', '}', '/', '#', '\t', '\u{301}', '\u{200d}'];

fn char_lit(idx: u64) -> Case {
    let items = esc_items();
    if (idx as usize) < items.len() {
        let it = &items[idx as usize];
        let mut c = Case::new("char-escape", Ty::Char, format!("'{}'", it.text));
        if let Some(s) = dec_string(&it.text) {
            let cs: Vec<char> = s.chars().collect();
            if cs.len() == 1 {
                c.expect = vec![Val::Char(cs[0] as u32)];
            }
        }
        // the escape table is given for strings; for chars it is judged only
        // if accepted
        c.tags = json!({"escape": it.text});
        c
    } else {
        let ch = RAW_CHARS[idx as usize - items.len()];
        let mut c = Case::new("char-raw", Ty::Char, format!("'{ch}'"));
        c.expect = vec![Val::Char(ch as u32)];
        c.must_accept = ch != '\t';
        c
    }
}

// ------------------------------------------------------------------ f-strings

const FALPHA: [&str; 8] = ["a", "é", "漢", "𝄞", " ", "{{", "}}", "\\n"];

/// maximal text length of each segment (one more segment than interpolations)
pub fn fstr_shapes(tier: Tier) -> &'static [&'static [usize]] {
    match tier {
        Tier::Quick => &[&[3], &[2, 2], &[1, 1, 1]],
        Tier::Thorough => &[&[4], &[3, 2], &[2, 3], &[2, 1, 2], &[1, 2, 1]],
    }
}

fn fstr(shape: usize, tier: Tier, idx: u64) -> Case {
    let shape = fstr_shapes(tier)[shape];
    let interps = shape.len() - 1;
    let rad: Vec<u64> = shape.iter().map(|l| n_texts(8, *l)).collect();
    let d = decode(idx, &rad);
    let segs: Vec<String> = d.iter().map(|i| text_of(&FALPHA, *i)).collect();
    let inter = ["{7}", "{x}"];
    let shown = ["7", "42"];
    let mut lit = String::from("f\"");
    let mut exp = String::new();
    let mut ok = true;
    for (i, s) in segs.iter().enumerate() {
        lit += s;
        match dec_fstring_text(s) {
            Some(t) => exp += &t,
            None => ok = false,
        }
        if i < interps {
            lit += inter[i];
            exp += shown[i];
        }
    }
    lit.push('"');
    let mut c = Case::new("fstring", Ty::Str, lit.clone());
    c.prog = Prog::Tail(format!("() -> String {{ let x = 42; {lit} }}"));
    if ok {
        c.expect = vec![Val::Str(exp)];
        c.must_accept = true;
    }
    let nonascii = segs.iter().any(|s| !s.is_ascii());
    c.tags = json!({"nonascii_text_segment": nonascii, "segments": segs, "interpolations": interps});
    c
}

/// (literal, expected, documented)
const FSTR_EXTRA: [(&str, &str, bool); 21] = [
    ("f\"{\"é\"}\"", "é", true),
    ("f\"{f\"{7}\"}\"", "7", true),
    ("f\"a{ 7 }b\"", "a7b", true),
    ("f\"\\u{41}{7}\"", "A7", true),
    ("f\"\\x41{7}\\t\"", "A7\t", true),
    ("f\"a\\\n   b{7}\"", "ab7", true),
    ("f\"{7}{x}\"", "742", true),
    ("f\"{x}{x}{x}\"", "424242", true),
    ("f\"x is {if x > 100 {\n    \"big\"\n} else {\n    \"small\"\n}}\"", "x is small", true),
    ("f\"Twice x is {2 * x}\"", "Twice x is 84", true),
    ("f\"x is {{ x }}\"", "x is { x }", true),
    ("f\"\\\"{7}\\\"\"", "\"7\"", true),
    ("f\"'{7}'\"", "'7'", true),
    ("f\"é\"", "é", true),
    ("f\"{7}é\"", "7é", true),
    ("f\"é {x}\"", "é 42", true),
    ("f\"{\"漢\"} {x}\"", "漢 42", true),
    // CR LF line ends inside the text of an f-string
    ("f\"a\\\r\n   b{7}\"", "ab7", true),
    ("f\"one\r\ntwo{7}\"", "one\r\ntwo7", true),
    ("f\"{7}one\r\ntwo\"", "7one\r\ntwo", true),
    ("f\"{\n7\r\n}\"", "7", true),
];

fn fstr_extra(idx: u64) -> Case {
    let (lit, exp, must) = FSTR_EXTRA[idx as usize];
    let mut c = Case::new("fstring", Ty::Str, lit);
    c.prog = Prog::Tail(format!("() -> String {{ let x = 42; {lit} }}"));
    c.expect = vec![Val::Str(exp.to_string())];
    if exp.contains('\r') {
        c.expect.push(Val::Str(exp.replace("\r\n", "\n")));
    }
    c.must_accept = must;
    // text segments: everything outside the interpolations; only the cases
    // whose own text (not the interpolated expression) has a multi-byte char
    let nonascii = matches!(idx, 13 | 14 | 15);
    c.tags = json!({"nonascii_text_segment": nonascii, "interpolations": lit.matches('{').count(),
                    "crlf_line_end": matches!(idx, 17 | 18 | 19)});
    c
}

// f-string texts in which braces are also written as escapes: "an escape never
// counts as a brace" (only the source spelling `{{` / `}}` is the f-string
// escape; `\x7b` is the character U+007B like in any string)
const FBRACE: [&str; 7] = ["{{", "}}", "\\x7b", "\\x7d", "\\u{7b}", "\\u{7d}", "a"];

pub fn fbrace_shapes(tier: Tier) -> &'static [&'static [usize]] {
    match tier {
        Tier::Quick => &[&[3], &[2, 2]],
        Tier::Thorough => &[&[4], &[3, 2], &[2, 3]],
    }
}

fn fstr_brace(shape: usize, tier: Tier, idx: u64) -> Case {
    let shape = fbrace_shapes(tier)[shape];
    let interps = shape.len() - 1;
    let rad: Vec<u64> = shape.iter().map(|l| n_texts(FBRACE.len() as u64, *l)).collect();
    let d = decode(idx, &rad);
    let mut lit = String::from("f\"");
    let mut exp = String::new();
    let mut adjacent = false;
    let mut segs = vec![];
    for (i, ti) in d.iter().enumerate() {
        // the symbols of this segment: (character it stands for, written as an escape)
        let mut syms: Vec<(char, bool)> = vec![];
        let seg = text_of(&FBRACE, *ti);
        let mut n = *ti;
        let mut len = 0u32;
        while n >= 7u64.pow(len) {
            n -= 7u64.pow(len);
            len += 1;
        }
        for k in decode(n, &vec![7; len as usize]) {
            syms.push(match k {
                0 => ('{', false),
                1 => ('}', false),
                2 | 4 => ('{', true),
                3 | 5 => ('}', true),
                _ => ('a', false),
            });
        }
        adjacent |= syms.windows(2).any(|w| w[0].0 == w[1].0 && w[0].0 != 'a' && (w[0].1 || w[1].1));
        let want: String = syms.iter().map(|x| x.0).collect();
        assert_eq!(dec_fstring_text(&seg).as_deref(), Some(want.as_str()));
        lit += &seg;
        exp += &want;
        segs.push(seg);
        if i < interps {
            lit += "{7}";
            exp += "7";
        }
    }
    lit.push('"');
    let mut c = Case::new("fstring", Ty::Str, lit.clone());
    c.prog = Prog::Tail(format!("() -> String {{ let x = 42; {lit} }}"));
    c.expect = vec![Val::Str(exp)];
    c.must_accept = true;
    c.tags = json!({"nonascii_text_segment": false, "segments": segs, "interpolations": interps,
                    "escaped_brace_next_to_same_brace": adjacent});
    c
}

// ------------------------------------------------------------------ literals in other positions

/// (spelling, type, token kind)
const LITPOS: [(&str, Ty, &str); 17] = [
    ("255", Ty::I32, "integer"),
    ("1_0u8", Ty::U8, "integer"),
    ("-1", Ty::I32, "integer"),
    ("0xFF", Ty::I32, "hex"),
    ("1.5", Ty::F64, "float"),
    ("5E-5", Ty::F64, "float"),
    ("10.", Ty::F64, "float"),
    ("'a'", Ty::Char, "char"),
    ("'\\n'", Ty::Char, "char"),
    ("\"s\"", Ty::Str, "string"),
    ("f\"v{7}\"", Ty::Str, "fstring"),
    ("1.2.3.4", Ty::Ip, "ipv4"),
    ("::1", Ty::Ip, "ipv6"),
    ("AS1234", Ty::Asn, "asn"),
    ("1.1.1.0 / 24", Ty::Prefix, "prefix"),
    ("if 1 < 2 { 255 } else { 0 }", Ty::I32, "if"),
    ("match Option.Some(255) { Some(y) => y, None => 0 }", Ty::I32, "match"),
];

const POSITIONS: [&str; 7] = ["tail", "return-tail", "return-statement", "let", "parenthesised", "argument", "if-branch"];

/// every kind of literal (and `if`/`match`, which the reference calls
/// expressions) wherever the reference allows an expression
fn lit_pos(idx: u64) -> Case {
    let d = decode(idx, &[LITPOS.len() as u64, POSITIONS.len() as u64]);
    let (sp, ty, tok) = LITPOS[d[0] as usize];
    let pos = POSITIONS[d[1] as usize];
    let t = ty.roto();
    let src = match pos {
        "tail" => format!("fn f() -> {t} {{ {sp} }}\n"),
        "return-tail" => format!("fn f() -> {t} {{ return {sp} }}\n"),
        "return-statement" => format!("fn f() -> {t} {{ return {sp}; }}\n"),
        "let" => format!("fn f() -> {t} {{ let v = {sp}; v }}\n"),
        "parenthesised" => format!("fn f() -> {t} {{ ({sp}) }}\n"),
        "argument" => format!("fn id(v: {t}) -> {t} {{ v }}\nfn f() -> {t} {{ id({sp}) }}\n"),
        _ => format!("fn f() -> {t} {{ if 1 < 2 {{ {sp} }} else {{ {sp} }} }}\n"),
    };
    let mut c = Case::new("literal-position", ty, format!("{sp} as {pos}"));
    c.prog = Prog::Full(src);
    c.expect = vec![match d[0] {
        0 | 3 | 15 | 16 => Val::Int(255),
        1 => Val::Int(10),
        2 => Val::Int(-1),
        4 => Val::F64(to_f64_bits(&dec_float_text("1.5").unwrap()).unwrap()),
        5 => Val::F64(to_f64_bits(&dec_float_text("5E-5").unwrap()).unwrap()),
        6 => Val::F64(to_f64_bits(&dec_float_text("10.").unwrap()).unwrap()),
        7 => Val::Char('a' as u32),
        8 => Val::Char(10),
        9 => Val::Str("s".into()),
        10 => Val::Str("v7".into()),
        11 => Val::Ip(IpAddr::V4(dec_ipv4("1.2.3.4").unwrap())),
        12 => Val::Ip(IpAddr::V6(dec_ipv6("::1").unwrap())),
        13 => Val::Asn(1234),
        _ => Val::Prefix(IpAddr::V4(dec_ipv4("1.1.1.0").unwrap()), 24),
    }];
    c.must_accept = true;
    c.tags = json!({"position": pos, "token_kind": tok, "after_return": pos.starts_with("return"), "group": tok});
    c
}

// ------------------------------------------------------------------ addresses

const OCT: [&str; 9] = ["0", "1", "9", "10", "99", "100", "255", "256", "01"];

fn ipv4(idx: u64) -> Case {
    let d = decode(idx, &[9, 9, 9, 9]);
    let sp = d.iter().map(|i| OCT[*i as usize]).collect::<Vec<_>>().join(".");
    let mut c = Case::new("ipv4", Ty::Ip, sp.clone());
    if let Some(a) = dec_ipv4(&sp) {
        c.expect = vec![Val::Ip(IpAddr::V4(a))];
        c.must_accept = true;
    }
    // 256 has no value; a leading zero could be octal or decimal: left open
    c
}

const G6: [u16; 4] = [0, 1, 0xffff, 0xdb8];

fn group_text(g: u16, style: u64) -> String {
    match style {
        0 => format!("{g:x}"),
        1 => format!("{g:X}"),
        2 => format!("{g:04x}"),
        _ => format!("{g:04X}"),
    }
}

/// all (h, t) with h + t <= 7
fn ht_pairs() -> Vec<(usize, usize)> {
    let mut v = vec![];
    for n in 0..=7 {
        for h in 0..=n {
            v.push((h, n - h));
        }
    }
    v
}

fn ipv6_case(head: &[u16], tail: Option<&[u16]>, style: u64) -> Case {
    let join = |g: &[u16]| g.iter().map(|x| group_text(*x, style)).collect::<Vec<_>>().join(":");
    let sp = match tail {
        Some(t) => format!("{}::{}", join(head), join(t)),
        None => join(head),
    };
    let mut c = Case::new("ipv6", Ty::Ip, sp.clone());
    if let Some(a) = dec_ipv6(&sp) {
        c.expect = vec![Val::Ip(IpAddr::V6(a))];
        c.must_accept = true;
    }
    c
}

fn ipv6(idx: u64) -> Case {
    if idx < 36 * 16 {
        let d = decode(idx, &[36, 4, 4]);
        let (h, t) = ht_pairs()[d[0] as usize];
        let g: Vec<u16> = (0..h + t).map(|j| G6[(d[1] as usize + j) % 4]).collect();
        ipv6_case(&g[..h], Some(&g[h..]), d[2])
    } else {
        let d = decode(idx - 36 * 16, &[4, 4]);
        let g: Vec<u16> = (0..8).map(|j| G6[(d[0] as usize + j) % 4]).collect();
        ipv6_case(&g, None, d[1])
    }
}

fn ipv6_all(mut idx: u64) -> Case {
    if idx >= 1593 {
        let d = decode(idx - 1593, &[4; 8]);
        let g: Vec<u16> = d.iter().map(|i| G6[*i as usize]).collect();
        return ipv6_case(&g, None, 0);
    }
    for n in 0..=4usize {
        for h in 0..=n {
            let cnt = 4u64.pow(n as u32);
            if idx < cnt {
                let d = decode(idx, &vec![4; n]);
                let g: Vec<u16> = d.iter().map(|i| G6[*i as usize]).collect();
                return ipv6_case(&g[..h], Some(&g[h..]), 0);
            }
            idx -= cnt;
        }
    }
    unreachable!()
}

const ASN_EXTRA: [&str; 8] = ["65535", "65536", "1010", "4294967295", "4294967296", "99999999999", "1_0", "0000000001"];

fn asn(idx: u64) -> Case {
    let digits = if idx < 1110 { digit_string(idx) } else { ASN_EXTRA[idx as usize - 1110].to_string() };
    let mut c = Case::new("asn", Ty::Asn, format!("AS{digits}"));
    if !digits.contains('_') {
        if let Some(v) = dec_int(&digits) {
            if v <= u32::MAX as u128 {
                c.expect = vec![Val::Asn(v as u32)];
                // `AS` followed by a number: leading zeros are not shown anywhere
                c.must_accept = digits == "0" || !digits.starts_with('0');
            }
        }
    }
    c
}

const PFX4: [&str; 5] = ["0.0.0.0", "1.1.1.0", "10.0.0.0", "255.255.255.255", "192.168.1.77"];
const PFX6: [&str; 5] = ["::", "::1", "2001:db8::", "ffff:ffff:ffff:ffff:ffff:ffff:ffff:ffff", "1:2:3:4:5:6:7:8"];

fn prefix(idx: u64) -> Case {
    let n4 = (PFX4.len() * 33 * 8) as u64;
    let (ip_s, len, form) = if idx < n4 {
        let d = decode(idx, &[PFX4.len() as u64, 33, 8]);
        (PFX4[d[0] as usize], d[1] as u8, d[2])
    } else {
        let d = decode(idx - n4, &[PFX6.len() as u64, 129, 8]);
        (PFX6[d[0] as usize], d[1] as u8, d[2])
    };
    let sep = [" / ", "/", " /", "/ "][(form % 4) as usize];
    let suf = if form >= 4 { "u8" } else { "" };
    let sp = format!("{ip_s}{sep}{len}{suf}");
    let mut c = Case::new("prefix", Ty::Prefix, sp);
    let ip: IpAddr = if ip_s.contains(':') { IpAddr::V6(dec_ipv6(ip_s).unwrap()) } else { IpAddr::V4(dec_ipv4(ip_s).unwrap()) };
    // whether host bits are kept or cleared is not documented: both accepted
    // (the prefix type of the host can only represent the cleared form)
    let m = mask(ip, len);
    c.expect = vec![Val::Prefix(m, len)];
    if m != ip {
        c.expect.push(Val::Prefix(ip, len));
    }
    c.must_accept = true;
    c.tags = json!({"len": len, "host_bits_set": m != ip});
    c
}

// ------------------------------------------------------------------ identifiers

/// quick tier: all of ASCII, plus up to 64 evenly spaced code points of every
/// (XID_Start?, XID_Continue?, alphabetic?, numeric?, UTF-8 length) class
/// (the two std predicates are there so that look-alike tests such as
/// `is_alphanumeric` used in place of XID_Continue differ on many
/// representatives), plus characters that are XID_Continue without being
/// letters or digits: all combining marks U+0300-036F, virama, Thai tone
/// mark, middle dot, undertie, connector punctuation, non-ASCII digits
pub fn ident_reps() -> &'static Vec<char> {
    static L: OnceLock<Vec<char>> = OnceLock::new();
    L.get_or_init(|| {
        let mut classes: std::collections::BTreeMap<(bool, bool, bool, bool, usize), Vec<char>> = Default::default();
        for cp in 0x80..0x110000u32 {
            if let Some(c) = char::from_u32(cp) {
                classes
                    .entry((
                        unicode_ident::is_xid_start(c),
                        unicode_ident::is_xid_continue(c),
                        c.is_alphabetic(),
                        c.is_numeric(),
                        c.len_utf8(),
                    ))
                    .or_default()
                    .push(c);
            }
        }
        let mut v: Vec<char> = (0..0x80u32).filter_map(char::from_u32).collect();
        for (_, cs) in classes {
            let k = 64.min(cs.len());
            for i in 0..k {
                v.push(cs[i * (cs.len() - 1) / (k - 1).max(1)]);
            }
        }
        v.extend((0x300..=0x36Fu32).filter_map(char::from_u32));
        v.extend([
            '\u{94D}', '\u{E48}', '\u{B7}', '\u{203F}', '\u{2040}', '\u{2054}', '\u{FE33}', '\u{FF3F}', '\u{660}',
            '\u{669}', '\u{966}', '\u{FF10}', '\u{1D7CE}', '\u{200C}', '\u{200D}', '\u{387}', '\u{1369}',
            '\u{19DA}', '\u{E0100}', '\u{20D0}', '\u{FE00}', '\u{A67C}', '\u{1DC0}',
        ]);
        let mut seen = std::collections::HashSet::new();
        v.retain(|c| seen.insert(*c));
        v
    })
}

fn ident(tier: Tier, idx: u64, first: bool) -> Case {
    let ch = match tier {
        Tier::Quick => ident_reps()[idx as usize],
        Tier::Thorough => {
            let cp = if idx >= 0xD800 { idx + 0x800 } else { idx };
            char::from_u32(cp as u32).unwrap()
        }
    };
    let (kind, name, other, valid) = if first {
        ("ident-first", format!("{ch}x"), "x", unicode_ident::is_xid_start(ch) || ch == '_')
    } else {
        ("ident-second", format!("a{ch}"), "a", unicode_ident::is_xid_continue(ch))
    };
    let mut c = Case::new(kind, Ty::I32, name.clone());
    // a distinct binding of the name without the character comes later: if the
    // character were dropped from the name the result would be 1
    c.prog = Prog::Tail(format!("() -> i32 {{ let {name} = 7; let {other} = 1; {name} }}"));
    if valid {
        c.expect = vec![Val::Int(7)];
        c.must_accept = true;
    }
    c.tags = json!({
        "char": format!("U+{:04X}", ch as u32),
        "first_char_non_ascii": first && !ch.is_ascii(),
        "xid_start": unicode_ident::is_xid_start(ch), "xid_continue": unicode_ident::is_xid_continue(ch),
        "utf8_len": ch.len_utf8(),
    });
    c
}

/// keywords of the documentation (highlighting table in docs/source/conf.py,
/// "Language keywords are also not valid identifiers"), then words the
/// implementation also reserves, then look-alikes that are identifiers
pub const DOC_KEYWORDS: usize = 21;
const WORDS: [&str; 33] = [
    "accept", "const", "dep", "else", "enum", "filter", "filtermap", "for", "fn", "if", "import", "let", "match",
    "pkg", "record", "reject", "return", "std", "super", "test", "while",
    "in", "true", "false",
    "filterx", "fnn", "iff", "std_", "testing", "_test", "Filter", "IF", "lets",
];

const KW_TEMPLATES: [&str; 7] = [
    "fn f() -> i32 { let @ = 7; @ }\n",
    "fn @() -> i32 { 7 }\nfn f() -> i32 { @() }\n",
    "fn g(@: i32) -> i32 { @ }\nfn f() -> i32 { g(7) }\n",
    "record @ { a: i32 }\nfn f() -> i32 { let r = @ { a: 7 }; r.a }\n",
    "record R { @: i32 }\nfn f() -> i32 { let r = R { @: 7 }; r.@ }\n",
    "const @: i32 = 7;\nfn f() -> i32 { @ }\n",
    "fn f() -> i32 { let r = { @: 7 }; r.@ }\n",
];

fn keyword(idx: u64) -> Case {
    let d = decode(idx, &[KW_TEMPLATES.len() as u64, WORDS.len() as u64]);
    let w = WORDS[d[1] as usize];
    let src = KW_TEMPLATES[d[0] as usize].replace('@', w);
    let mut c = Case::new("keyword-as-identifier", Ty::I32, w);
    c.prog = Prog::Full(src);
    let wi = d[1] as usize;
    if wi < DOC_KEYWORDS {
        c.must_reject = true;
    } else if wi >= 24 {
        c.must_accept = true;
        c.expect = vec![Val::Int(7)];
    }
    c.tags = json!({"position": d[0]});
    c
}

// ------------------------------------------------------------------ comments, shebang

fn comment_tokens() -> Vec<&'static str> {
    "fn g ( x : i32 ) -> i32 { x + 1 } fn f ( ) -> i32 { let y = g ( 2 ) ; y * 2 }".split(' ').collect()
}

const COMMENTS: [&str; 11] =
    ["//", "// x", "//é漢𝄞", "// \"", "// '", "// f\"{", "/// doc", "//// //", "// */ /*", "// x\\", "// x\r"];

fn with_comments(ins: &[(usize, &str, bool)]) -> String {
    let toks = comment_tokens();
    let mut s = String::new();
    for g in 0..=toks.len() {
        for (gap, text, nl) in ins {
            if *gap == g {
                s += " ";
                s += text;
                if *nl {
                    s += "\n";
                }
            }
        }
        if g < toks.len() {
            s += " ";
            s += toks[g];
        }
    }
    s
}

fn comment(_tier: Tier, idx: u64) -> Case {
    let g = (comment_tokens().len() + 1) as u64;
    let n = COMMENTS.len() as u64;
    let (src, label) = if idx < g * n {
        let d = decode(idx, &[g, n]);
        (with_comments(&[(d[0] as usize, COMMENTS[d[1] as usize], true)]), format!("{:?} at gap {}", COMMENTS[d[1] as usize], d[0]))
    } else if idx < g * n + n {
        // comment at the very end without a newline
        let t = COMMENTS[(idx - g * n) as usize];
        (with_comments(&[(g as usize - 1, t, false)]), format!("{t:?} at end of input"))
    } else {
        // two comments (thorough)
        let mut k = idx - g * n - n;
        let pair = k / (n * n);
        k %= n * n;
        let (mut a, mut p) = (0u64, pair);
        while p >= g - 1 - a {
            p -= g - 1 - a;
            a += 1;
        }
        let b = a + 1 + p;
        let (t1, t2) = (COMMENTS[(k / n) as usize], COMMENTS[(k % n) as usize]);
        (
            with_comments(&[(a as usize, t1, true), (b as usize, t2, true)]),
            format!("{t1:?} at gap {a}, {t2:?} at gap {b}"),
        )
    };
    let mut c = Case::new("comment", Ty::I32, label);
    c.prog = Prog::Full(src);
    c.expect = vec![Val::Int(6)];
    c.must_accept = true;
    c
}

const SHEBANGS: [&str; 11] = [
    "#!/usr/bin/env roto", "#!/bin/roto -x", "#!x", "#!/é/漢", "#!//", "#![x]", "#!!", "#! /usr/bin/env roto", "#!",
    "#!\t/bin/roto", "#! ",
];

fn shebang(idx: u64) -> Case {
    let d = decode(idx, &[SHEBANGS.len() as u64, 2, 4]);
    let sb = SHEBANGS[d[0] as usize];
    let nl = ["\n", "\r\n"][d[1] as usize];
    let body = "fn g(x: i32) -> i32 { x + 1 }\nfn f() -> i32 { let y = g(2); y * 2 }\n";
    let (src, has_f) = match d[2] {
        0 => (format!("{sb}{nl}{body}"), true),
        1 => (format!("{sb}{nl}// comment\n{body}"), true),
        2 => (format!("{sb}{nl}"), false),
        _ => (sb.to_string(), false),
    };
    let mut c = Case::new("shebang", if has_f { Ty::I32 } else { Ty::Nothing }, format!("{sb:?} + {nl:?}"));
    c.prog = Prog::Full(src);
    if has_f {
        c.expect = vec![Val::Int(6)];
    }
    // "The first line of a script is allowed to be a shebang; if it starts
    // with `#!` then it will be ignored."
    c.must_accept = true;
    let rest = if d[2] == 3 { sb[2..].to_string() } else { format!("{}{nl}", &sb[2..]) };
    let ws_after = rest.is_empty() || rest.starts_with(char::is_whitespace);
    c.tags = json!({"whitespace_or_nothing_after_hash_bang": ws_after, "shebang_line": sb});
    c
}
