//! Shared types of C09 and the generic "spelling case" runner:
//! classify every case alone with parse + typecheck (cheap), then compile all
//! accepted cases of the unit in one package and compare the value each
//! function returns with the independently decoded value.

use std::net::IpAddr;

use roto::{FileTree, NoCtx, Package, RotoString, Runtime, TypedFunc};
use vcore::util::fnv_str;
use vcore::{Cx, SUB_SETUP, Value, json};

#[derive(Clone, Copy, PartialEq, Eq, Debug)]
pub enum Ty {
    U8,
    U16,
    U32,
    U64,
    I8,
    I16,
    I32,
    I64,
    F32,
    F64,
    Char,
    Str,
    Ip,
    Asn,
    Prefix,
    /// the program defines no `f`; only acceptance is judged
    Nothing,
}

pub const INT_TYS: [Ty; 8] = [Ty::U8, Ty::U16, Ty::U32, Ty::U64, Ty::I8, Ty::I16, Ty::I32, Ty::I64];

impl Ty {
    pub fn roto(self) -> &'static str {
        match self {
            Ty::U8 => "u8",
            Ty::U16 => "u16",
            Ty::U32 => "u32",
            Ty::U64 => "u64",
            Ty::I8 => "i8",
            Ty::I16 => "i16",
            Ty::I32 => "i32",
            Ty::I64 => "i64",
            Ty::F32 => "f32",
            Ty::F64 => "f64",
            Ty::Char => "char",
            Ty::Str => "String",
            Ty::Ip => "IpAddr",
            Ty::Asn => "Asn",
            Ty::Prefix => "Prefix",
            Ty::Nothing => "()",
        }
    }
    pub fn is_int(self) -> bool {
        INT_TYS.contains(&self)
    }
    /// documented range of an integer type (language_reference.md, "Integers";
    /// the maxima of i16/i32 in that table are typos for 32767 / 2147483647,
    /// the prose "iN: signed integer of N bits" is used instead)
    pub fn int_range(self) -> (i128, i128) {
        match self {
            Ty::U8 => (0, (1 << 8) - 1),
            Ty::U16 => (0, (1 << 16) - 1),
            Ty::U32 => (0, (1 << 32) - 1),
            Ty::U64 => (0, (1 << 64) - 1),
            Ty::I8 => (-(1 << 7), (1 << 7) - 1),
            Ty::I16 => (-(1 << 15), (1 << 15) - 1),
            Ty::I32 => (-(1 << 31), (1 << 31) - 1),
            Ty::I64 => (-(1 << 63), (1 << 63) - 1),
            _ => (0, -1),
        }
    }
}

#[derive(Clone, PartialEq, Debug)]
pub enum Val {
    Int(i128),
    F32(u32),
    F64(u64),
    Char(u32),
    Str(String),
    Ip(IpAddr),
    Asn(u32),
    Prefix(IpAddr, u8),
}

impl Val {
    pub fn json(&self) -> Value {
        match self {
            Val::Int(i) => json!({"int": i.to_string()}),
            Val::F32(b) => json!({"f32_bits": format!("{b:#010x}"), "approx": f32::from_bits(*b).to_string()}),
            Val::F64(b) => json!({"f64_bits": format!("{b:#018x}"), "approx": f64::from_bits(*b).to_string()}),
            Val::Char(c) => json!({"char": format!("U+{c:04X}")}),
            Val::Str(s) => json!({"string": s, "escaped": s.escape_default().to_string()}),
            Val::Ip(a) => json!({"ip": a.to_string()}),
            Val::Asn(a) => json!({"asn": a}),
            Val::Prefix(a, l) => json!({"prefix_addr": a.to_string(), "prefix_len": l}),
        }
    }
    pub fn hash(&self) -> u64 {
        fnv_str(&format!("{self:?}"))
    }
}

#[derive(Clone, Debug)]
pub enum Prog {
    /// text after `fn NAME`, e.g. `() -> u16 { 0xff }` (batchable)
    Tail(String),
    /// a complete script defining `fn f()`; compiled alone
    Full(String),
}

#[derive(Clone, Debug)]
pub struct Case {
    /// family, looked at by the known-finding matchers
    pub kind: &'static str,
    pub ret: Ty,
    pub prog: Prog,
    /// the spelling under test, for the reader
    pub spelling: String,
    /// acceptable values of `f()`; empty: the documentation leaves it open
    pub expect: Vec<Val>,
    /// the spelling is squarely inside the documented grammar
    pub must_accept: bool,
    /// the statement demands rejection (keyword as identifier)
    pub must_reject: bool,
    /// extra fields for matchers / the reader
    pub tags: Value,
}

impl Case {
    pub fn new(kind: &'static str, ret: Ty, spelling: impl Into<String>) -> Case {
        let spelling = spelling.into();
        Case {
            kind,
            ret,
            prog: Prog::Tail(format!("() -> {} {{ {} }}", ret.roto(), spelling)),
            spelling,
            expect: vec![],
            must_accept: false,
            must_reject: false,
            tags: json!({}),
        }
    }
    pub fn single_src(&self) -> String {
        match &self.prog {
            Prog::Tail(t) => format!("fn f{t}\n"),
            Prog::Full(s) => s.clone(),
        }
    }
    pub fn json(&self) -> Value {
        let mut v = json!({
            "kind": self.kind, "spelling": self.spelling, "type": self.ret.roto(),
            "program": self.single_src(), "must_accept": self.must_accept,
            "must_reject": self.must_reject,
        });
        if let (Some(o), Some(t)) = (v.as_object_mut(), self.tags.as_object()) {
            for (k, x) in t {
                o.insert(k.clone(), x.clone());
            }
        }
        v
    }
    pub fn expected_json(&self) -> Value {
        if self.expect.is_empty() {
            json!("unspecified")
        } else {
            json!({"f() is one of": self.expect.iter().map(|v| v.json()).collect::<Vec<_>>()})
        }
    }
}

pub enum Verdict {
    Accept,
    /// kinds of the reported errors ("parse", "type")
    Reject(String),
    Panic(String),
}

/// parse + typecheck only (no code generation)
pub fn classify(rt: &Runtime<NoCtx>, src: &str) -> Verdict {
    let r = vcore::util::catch(|| match FileTree::test_file("script.roto", src, 0).parse() {
        Err(r) => Err(r.verif_kinds().join(",")),
        Ok(p) => match p.typecheck(rt) {
            Err(r) => Err(r.verif_kinds().join(",")),
            Ok(_) => Ok(()),
        },
    });
    match r {
        Ok(Ok(())) => Verdict::Accept,
        Ok(Err(k)) => Verdict::Reject(k),
        Err(p) => Verdict::Panic(p),
    }
}

pub fn full_compile(rt: &Runtime<NoCtx>, src: &str) -> Result<Package<NoCtx>, Verdict> {
    match vcore::util::catch(|| FileTree::test_file("script.roto", src, 0).compile(rt)) {
        Ok(Ok(p)) => Ok(p),
        Ok(Err(r)) => Err(Verdict::Reject(r.verif_kinds().join(","))),
        Err(p) => Err(Verdict::Panic(p)),
    }
}

/// Call the nullary function `name` and convert what it returns
pub fn call_fn(pkg: &mut Package<NoCtx>, name: &str, ty: Ty) -> Result<Val, String> {
    macro_rules! g {
        ($t:ty, $conv:expr) => {{
            let f: TypedFunc<NoCtx, fn() -> $t> =
                pkg.get_function(name).map_err(|e| e.to_string().lines().next().unwrap_or("").to_string())?;
            let v: $t = f.call();
            #[allow(clippy::redundant_closure_call)]
            Ok($conv(v))
        }};
    }
    match ty {
        Ty::U8 => g!(u8, |v| Val::Int(v as i128)),
        Ty::U16 => g!(u16, |v| Val::Int(v as i128)),
        Ty::U32 => g!(u32, |v| Val::Int(v as i128)),
        Ty::U64 => g!(u64, |v| Val::Int(v as i128)),
        Ty::I8 => g!(i8, |v| Val::Int(v as i128)),
        Ty::I16 => g!(i16, |v| Val::Int(v as i128)),
        Ty::I32 => g!(i32, |v| Val::Int(v as i128)),
        Ty::I64 => g!(i64, |v| Val::Int(v as i128)),
        Ty::F32 => g!(f32, |v| Val::F32(host::canon_f32(v))),
        Ty::F64 => g!(f64, |v| Val::F64(host::canon_f64(v))),
        Ty::Char => g!(char, |v| Val::Char(v as u32)),
        Ty::Str => g!(RotoString, |v: RotoString| Val::Str(v.to_string())),
        Ty::Ip => g!(IpAddr, Val::Ip),
        Ty::Asn => g!(inetnum::asn::Asn, |v: inetnum::asn::Asn| Val::Asn(v.into_u32())),
        Ty::Prefix => g!(inetnum::addr::Prefix, |v: inetnum::addr::Prefix| Val::Prefix(v.addr(), v.len())),
        Ty::Nothing => Err("no function".into()),
    }
}

/// first sentence of a panic message + location, for grouping
pub fn norm_panic(p: &str) -> String {
    let (msg, loc) = p.rsplit_once(" @ ").unwrap_or((p, ""));
    let head = msg.split([';', '`']).next().unwrap_or(msg);
    format!("{} @ {}", head.trim(), loc)
}

struct Pending {
    class: String,
    sub: u64,
    case: Value,
    expected: Value,
    observed: Value,
    count: u64,
    last: String,
}

/// Violation sink. Cases of one unit that fail in the same way (same class,
/// same normalised observation, same family and same matcher-relevant boolean
/// tags) are reported as one violation carrying the first such case, a count
/// and the last spelling: a defect that hits whole blocks of the enumeration
/// (every non-ASCII identifier start, every f-string with multi-byte text)
/// would otherwise produce hundreds of thousands of identical reports.
pub struct Sink {
    groups: Vec<(String, Pending)>,
}

impl Sink {
    pub fn new() -> Sink {
        Sink { groups: vec![] }
    }
    pub fn flush(&mut self, cx: &mut Cx) {
        for (_, p) in std::mem::take(&mut self.groups) {
            let mut case = p.case;
            if p.count > 1 {
                case["same_failure_in_this_unit"] = json!(p.count);
                case["last_spelling_failing_this_way"] = json!(p.last);
                cx.count("violating_cases_merged_into_groups", p.count - 1);
            }
            cx.violation(p.class, p.sub, case, p.expected, p.observed);
        }
    }
    pub fn add(&mut self, cx: &mut Cx, class: &str, key: String, sub: u64, c: &Case, observed: Value) {
        cx.count(&format!("violating_cases:{class}"), 1);
        let mut flags: Vec<String> = c
            .tags
            .as_object()
            .map(|o| o.iter().filter(|(_, v)| v.as_bool() == Some(true)).map(|(k, _)| k.clone()).collect())
            .unwrap_or_default();
        flags.sort();
        // a family may name a finer group (e.g. the kind of token) so that
        // different constructs are never merged into one report
        let group = c.tags["group"].as_str().unwrap_or("");
        let key = format!("{class}|{key}|{}|{}|{}|{group}", c.kind, c.must_accept, flags.join(","));
        if let Some((_, p)) = self.groups.iter_mut().find(|(k, _)| *k == key) {
            p.count += 1;
            p.last = c.spelling.clone();
            return;
        }
        self.groups.push((
            key,
            Pending {
                class: class.into(),
                sub,
                case: c.json(),
                expected: expected_for(class, c),
                observed,
                count: 1,
                last: c.spelling.clone(),
            },
        ));
    }
    pub fn ok(&mut self, _cx: &mut Cx) {}
}

fn expected_for(class: &str, c: &Case) -> Value {
    match class {
        "accepted-forbidden" => json!("the script is rejected"),
        "value-mismatch" => c.expected_json(),
        _ => json!({"compiles": true, "value": c.expected_json()}),
    }
}

/// Run the cases `(sub, case)` of one unit.
pub fn run_cases(cx: &mut Cx, cases: Vec<(u64, Case)>) {
    if !cx.case(SUB_SETUP) {
        return;
    }
    let rt = host::runtime();
    let mut sink = Sink::new();
    let mut accepted: Vec<(u64, Case)> = vec![];
    let mut n_trans = 0u64;
    let mut n_valid = 0u64;
    let mut n_unspec = 0u64;
    let mut n_states = 0u64;
    let t_start = std::time::Instant::now();
    for (sub, c) in cases {
        if !cx.case(sub) {
            continue;
        }
        n_states += 1;
        let src = c.single_src();
        let v = classify(&rt, &src);
        n_trans += 1;
        match v {
            Verdict::Accept => {
                if c.must_reject {
                    n_valid += 1;
                    sink.add(cx, "accepted-forbidden", String::new(), sub, &c, json!("compiled (parse + typecheck succeeded)"));
                } else {
                    accepted.push((sub, c));
                }
            }
            Verdict::Reject(kinds) => {
                if c.must_accept {
                    n_valid += 1;
                    sink.add(cx, "rejected-documented", kinds.clone(), sub, &c, json!({"rejected_with_errors": kinds}));
                } else if c.must_reject {
                    n_valid += 1;
                    cx.nontrivial(fnv_str(&src));
                    cx.outcome(fnv_str("rejected"));
                    sink.ok(cx);
                } else {
                    n_unspec += 1;
                    cx.count("rejected_spelling_not_promised_by_docs", 1);
                    if c.tags["above_i64_max"] == true {
                        cx.count("rejected_in_range_u64_above_i64_max", 1);
                    }
                    sink.ok(cx);
                }
            }
            Verdict::Panic(p) => {
                if c.must_accept {
                    n_valid += 1;
                    sink.add(cx, "panic", norm_panic(&p), sub, &c, json!({"compiler_panicked": p}));
                } else {
                    // compilation being total is C06's property
                    if c.must_reject {
                        n_valid += 1;
                    } else {
                        n_unspec += 1;
                    }
                    cx.count("panic_on_spelling_not_promised_by_docs", 1);
                    sink.ok(cx);
                }
            }
        }
    }
    cx.count("stage_us:classify", t_start.elapsed().as_micros() as u64);
    let t_start = std::time::Instant::now();
    // value check: one package for all batchable accepted cases
    let mut batch = String::new();
    let mut n_batch = 0;
    for (j, (_, c)) in accepted.iter().enumerate() {
        if let Prog::Tail(t) = &c.prog {
            batch += &format!("fn case{j}{t}\n");
            n_batch += 1;
        }
    }
    let mut pkg: Option<Package<NoCtx>> = None;
    if n_batch > 0 && cx.case(SUB_SETUP) {
        n_trans += 1;
        match full_compile(&rt, &batch) {
            Ok(p) => pkg = Some(p),
            Err(v) => {
                cx.count("batch_compile_failed_fell_back_to_single", 1);
                cx.note(format!(
                    "batch compile failed ({}), cases compiled one by one",
                    match v {
                        Verdict::Reject(k) => format!("errors: {k}"),
                        Verdict::Panic(p) => format!("panic: {p}"),
                        Verdict::Accept => String::new(),
                    }
                ));
            }
        }
    }
    cx.count("stage_us:batch_compile", t_start.elapsed().as_micros() as u64);
    let t_start = std::time::Instant::now();
    for (j, (sub, c)) in accepted.iter().enumerate() {
        if !cx.case(*sub) {
            continue;
        }
        if c.ret == Ty::Nothing {
            // acceptance only
            n_valid += 1;
            cx.nontrivial(fnv_str(&c.single_src()));
            cx.outcome(fnv_str("accepted"));
            sink.ok(cx);
            continue;
        }
        let observed: Result<Val, Verdict> = match (&c.prog, pkg.as_mut()) {
            (Prog::Tail(_), Some(p)) => {
                n_trans += 1;
                call_fn(p, &format!("case{j}"), c.ret).map_err(Verdict::Reject)
            }
            _ => {
                n_trans += 2;
                match full_compile(&rt, &c.single_src()) {
                    Ok(mut p) => call_fn(&mut p, "f", c.ret).map_err(Verdict::Reject),
                    Err(v) => Err(v),
                }
            }
        };
        match observed {
            Ok(v) => {
                if c.expect.is_empty() {
                    n_unspec += 1;
                    cx.count("accepted_spelling_value_left_open_by_docs", 1);
                    sink.ok(cx);
                } else {
                    n_valid += 1;
                    let h = fnv_str(&c.single_src());
                    cx.nontrivial(h);
                    cx.outcome(v.hash());
                    if c.expect.contains(&v) {
                        if cx.res.samples.is_empty() && (h % 97 == 0) {
                            cx.sample(json!({"case": c.json(), "expected": c.expected_json(), "observed": v.json()}));
                        }
                        sink.ok(cx);
                    } else {
                        sink.add(cx, "value-mismatch", String::new(), *sub, c, v.json());
                    }
                }
            }
            Err(Verdict::Panic(p)) => {
                n_valid += 1;
                sink.add(cx, "panic", norm_panic(&p), *sub, c, json!({"compiler_panicked_after_typecheck": p}));
            }
            Err(Verdict::Reject(k)) => {
                n_valid += 1;
                sink.add(cx, "rejected-documented", k.clone(), *sub, c, json!({"typechecked_but_no_function": k}));
            }
            Err(Verdict::Accept) => unreachable!(),
        }
    }
    cx.count("stage_us:call_and_compare", t_start.elapsed().as_micros() as u64);
    sink.flush(cx);
    cx.states(n_states);
    cx.transitions(n_trans);
    cx.validated(n_valid);
    cx.unspecified(n_unspec);
}
