//! Supplementary free-running pass (NOT exhaustive, and labelled so in the
//! evidence): the controlled scheduler interleaves threads at lock
//! acquisitions and element-pointer uses, so it cannot see two threads that
//! are wrongly admitted into the same critical section at once (a lock that
//! became shared, an access moved out of the guarded region without a hook).
//! For that class the same operations are run on real, unscheduled OS threads
//! and checked against invariants that hold in EVERY linearizable execution,
//! so a report is never a false alarm; silence is only as good as the number
//! of iterations. A crash (double free of a duplicated `String`) kills the
//! worker and is reported with the case by the pool.
//!
//! Two lists: `p` only ever permuted (swap) — its multiset of elements is an
//! invariant, `contains`/`index` of an initial element always succeed, every
//! snapshot is a permutation; `g` only ever appended to — every snapshot is
//! the initial element followed by pushed values, lengths never shrink.

use roto::{List, NoCtx, RotoString, TypedFunc};
use std::sync::{Arc, Barrier};

#[derive(Clone, Copy, Debug, PartialEq, Eq)]
pub enum Elem {
    U64,
    Str,
}

#[derive(Clone, Copy, Debug, PartialEq, Eq)]
pub enum FOp {
    Swap,
    Get,
    Contains,
    Index,
    ToVec,
    ConcatFixed,
    EqFixed,
    ScriptGet,
    ScriptJoinOrContains,
    Push,
    GetG,
    ToVecG,
    ConcatG,
    LenG,
}

impl FOp {
    pub fn name(self) -> &'static str {
        match self {
            FOp::Swap => "p.swap(i, j)",
            FOp::Get => "p.get(i)",
            FOp::Contains => "p.contains(initial element)",
            FOp::Index => "p.index(initial element)",
            FOp::ToVec => "p.to_vec()",
            FOp::ConcatFixed => "p.concat(fixed)",
            FOp::EqFixed => "p == fixed",
            FOp::ScriptGet => "script{p.get(i)}",
            FOp::ScriptJoinOrContains => "script{p.join(\"-\")} / script{p.contains(x)}",
            FOp::Push => "g.push(x)",
            FOp::GetG => "g.get(i)",
            FOp::ToVecG => "g.to_vec()",
            FOp::ConcatG => "g.concat(fixed)",
            FOp::LenG => "g.len()",
        }
    }
}

#[derive(Clone, Copy, Debug)]
pub struct Case {
    pub elem: Elem,
    pub writer: FOp,
    pub other: FOp,
}

pub fn cases() -> Vec<Case> {
    let mut v = vec![];
    for elem in [Elem::U64, Elem::Str] {
        for other in [FOp::Swap, FOp::Get, FOp::Contains, FOp::Index, FOp::ToVec, FOp::ConcatFixed, FOp::EqFixed, FOp::ScriptGet, FOp::ScriptJoinOrContains] {
            v.push(Case { elem, writer: FOp::Swap, other });
        }
        for other in [FOp::Push, FOp::GetG, FOp::ToVecG, FOp::ConcatG, FOp::LenG] {
            v.push(Case { elem, writer: FOp::Push, other });
        }
    }
    v
}

pub const SCRIPT: &str = "\
fn gu(l: List[u64], i: u64) -> u64? { l.get(i) }
fn gs(l: List[String], i: u64) -> String? { l.get(i) }
fn cu(l: List[u64], x: u64) -> bool { l.contains(x) }
fn js(l: List[String]) -> String { l.join(\"-\") }
";

pub struct Scripts {
    pub gu: TypedFunc<NoCtx, fn(List<u64>, u64) -> Option<u64>>,
    pub gs: TypedFunc<NoCtx, fn(List<RotoString>, u64) -> Option<RotoString>>,
    pub cu: TypedFunc<NoCtx, fn(List<u64>, u64) -> bool>,
    pub js: TypedFunc<NoCtx, fn(List<RotoString>) -> RotoString>,
}

/// element values: four distinct initial ones, distinct pushed ones
trait El: Clone + Send + Sync + PartialEq + roto::Value<Transformed: PartialEq + Clone> + 'static {
    fn make(k: u64) -> Self;
    fn key(&self) -> u64;
}
impl El for u64 {
    fn make(k: u64) -> u64 {
        1000 + k
    }
    fn key(&self) -> u64 {
        *self - 1000
    }
}
impl El for RotoString {
    fn make(k: u64) -> RotoString {
        // heap-allocated and of different lengths
        RotoString::from(format!("element-{k}-{}", "x".repeat((k % 7) as usize)).as_str())
    }
    fn key(&self) -> u64 {
        self.to_string().split('-').nth(1).and_then(|s| s.parse().ok()).unwrap_or(u64::MAX)
    }
}

struct Lcg(u64);
impl Lcg {
    fn next(&mut self) -> u64 {
        self.0 = self.0.wrapping_mul(6364136223846793005).wrapping_add(1442695040888963407);
        self.0 >> 33
    }
}

const N_INIT: u64 = 4;
const MAX_PUSH: u64 = 48;

/// elements shown by their keys (u64::MAX: not a value this harness ever made)
fn show<T: El>(v: &[T]) -> String {
    format!("{:?}", v.iter().map(|x| x.key()).collect::<Vec<_>>())
}

fn show1<T: El>(v: &Option<T>) -> String {
    format!("{:?}", v.as_ref().map(|x| x.key()))
}

fn sorted_keys<T: El>(v: &[T]) -> Vec<u64> {
    let mut k: Vec<u64> = v.iter().map(|x| x.key()).collect();
    k.sort();
    k
}

/// Runs one case: two threads do `writer`, two do `other`, `iters` times each.
/// Returns the first broken invariant.
pub fn run(case: Case, iters: u64, s: &Arc<Scripts>) -> Result<u64, String> {
    match case.elem {
        Elem::U64 => run_t::<u64>(case, iters, s),
        Elem::Str => run_t::<RotoString>(case, iters, s),
    }
}

fn script_get<T: El>(s: &Scripts, l: &List<T>, i: u64) -> Option<T> {
    // dispatch on the element type without specialisation
    let any: &dyn std::any::Any = l;
    if let Some(l) = any.downcast_ref::<List<u64>>() {
        let r = s.gu.call(l.clone(), i);
        return r.map(|x| T::make(x - 1000));
    }
    if let Some(l) = any.downcast_ref::<List<RotoString>>() {
        let r = s.gs.call(l.clone(), i);
        return r.map(|x| T::make(x.key()));
    }
    None
}

fn run_t<T: El>(case: Case, iters: u64, s: &Arc<Scripts>) -> Result<u64, String> {
    let init: Vec<T> = (0..N_INIT).map(T::make).collect();
    let p: List<T> = List::from(init.clone());
    let fixed: List<T> = List::from(vec![T::make(90), T::make(91)]);
    let g: List<T> = List::from(vec![T::make(0)]);
    let init_keys = sorted_keys(&init);
    let barrier = Arc::new(Barrier::new(4));
    let mut hs = vec![];
    for tid in 0..4u64 {
        let op = if tid < 2 { case.writer } else { case.other };
        let (p, g, fixed, init, init_keys, barrier, s) = (p.clone(), g.clone(), fixed.clone(), init.clone(), init_keys.clone(), barrier.clone(), s.clone());
        hs.push(std::thread::spawn(move || -> Result<u64, String> {
            let mut rng = Lcg(0x9E3779B97F4A7C15 ^ (tid + 1));
            let mut pushed = 0u64;
            let mut last_len = 0u64;
            barrier.wait();
            for it in 0..iters {
                let i = rng.next() % N_INIT;
                let j = rng.next() % N_INIT;
                match op {
                    FOp::Swap => p.swap(i as usize, j as usize),
                    FOp::Get => match p.get(i as usize) {
                        Some(x) if init.contains(&x) => {}
                        other => return Err(format!("p.get({i}) = {}: not an element the list ever held", show1(&other))),
                    },
                    FOp::ScriptGet => match script_get(&s, &p, i) {
                        Some(x) if init.contains(&x) => {}
                        other => return Err(format!("script p.get({i}) = {}: not an element the list ever held", show1(&other))),
                    },
                    FOp::Contains => {
                        if !p.contains(&init[i as usize]) {
                            return Err(format!("p.contains(element {i}) = false although swaps never remove an element"));
                        }
                    }
                    FOp::Index => {
                        if p.index(&init[i as usize]).is_none() {
                            return Err(format!("p.index(element {i}) = None although swaps never remove an element"));
                        }
                    }
                    FOp::ToVec => {
                        let v = p.to_vec();
                        if sorted_keys(&v) != init_keys {
                            return Err(format!("p.to_vec() = {}: not a permutation of the initial contents", show(&v)));
                        }
                    }
                    FOp::ConcatFixed => {
                        let v = p.concat(&fixed).to_vec();
                        let mut want = init_keys.clone();
                        want.extend([90, 91]);
                        if sorted_keys(&v) != want {
                            return Err(format!("p.concat(fixed) = {}: not a permutation of p followed by fixed", show(&v)));
                        }
                    }
                    FOp::EqFixed => {
                        if p == fixed {
                            return Err("p == fixed although they never hold the same elements".into());
                        }
                    }
                    FOp::ScriptJoinOrContains => {
                        let any: &dyn std::any::Any = &p;
                        if let Some(l) = any.downcast_ref::<List<u64>>() {
                            if !s.cu.call(l.clone(), 1000 + i) {
                                return Err(format!("script p.contains({}) = false although swaps never remove an element", 1000 + i));
                            }
                        } else if let Some(l) = any.downcast_ref::<List<RotoString>>() {
                            let joined = s.js.call(l.clone()).to_string();
                            let mut parts: Vec<u64> = joined.split("-element").enumerate().map(|(k, part)| {
                                let part = if k == 0 { part.strip_prefix("element").unwrap_or(part) } else { part };
                                part.split('-').nth(1).and_then(|x| x.parse().ok()).unwrap_or(u64::MAX)
                            }).collect();
                            parts.sort();
                            if parts != init_keys {
                                return Err(format!("script p.join(\"-\") = {joined:?}: not a permutation of the initial contents"));
                            }
                        }
                    }
                    FOp::Push => {
                        if pushed < MAX_PUSH {
                            g.push(T::make(100 + tid * 100 + pushed));
                            pushed += 1;
                        } else {
                            // keep the thread busy on the same lock
                            let _ = g.len();
                        }
                    }
                    FOp::GetG => {
                        let n = g.len();
                        let k = rng.next() % n as u64;
                        match g.get(k as usize) {
                            Some(x) if (k == 0 && x == T::make(0)) || (k > 0 && x.key() >= 100 && x.key() < 600) => {}
                            other => return Err(format!("g.get({k}) = {} (len was {n}): not a value that was ever at that position", show1(&other))),
                        }
                    }
                    FOp::ToVecG => {
                        let v = g.to_vec();
                        let ok = v.first() == Some(&T::make(0)) && v[1..].iter().all(|x| x.key() >= 100 && x.key() < 600) && v.len() as u64 >= last_len;
                        if !ok {
                            return Err(format!("g.to_vec() = {}: not the initial element followed by pushed values, or shorter than before ({last_len})", show(&v)));
                        }
                        last_len = v.len() as u64;
                    }
                    FOp::ConcatG => {
                        let v = g.concat(&fixed).to_vec();
                        let n = v.len();
                        let ok = n >= 3 && v[0] == T::make(0) && v[n - 2].key() == 90 && v[n - 1].key() == 91 && v[1..n - 2].iter().all(|x| x.key() >= 100 && x.key() < 600);
                        if !ok {
                            return Err(format!("g.concat(fixed) = {}", show(&v)));
                        }
                    }
                    FOp::LenG => {
                        let n = g.len() as u64;
                        if n < last_len || n > 1 + 4 * MAX_PUSH {
                            return Err(format!("g.len() = {n} after {last_len}"));
                        }
                        last_len = n;
                    }
                }
                let _ = it;
            }
            Ok(pushed)
        }));
    }
    let mut pushed_total = 0;
    let mut first_err = None;
    for h in hs {
        match h.join() {
            Ok(Ok(n)) => pushed_total += n,
            Ok(Err(e)) => first_err = first_err.or(Some(e)),
            Err(_) => first_err = first_err.or(Some("a thread panicked".into())),
        }
    }
    if let Some(e) = first_err {
        // the lists may hold duplicated elements: do not run their destructors
        std::mem::forget((p, g, fixed));
        return Err(e);
    }
    // final states
    let v = p.to_vec();
    if sorted_keys(&v) != init_keys {
        let msg = format!("final p = {}: not a permutation of the initial contents {}", show(&v), show(&init));
        std::mem::forget((p, g, fixed, v));
        return Err(msg);
    }
    let gv = g.to_vec();
    if gv.len() as u64 != 1 + pushed_total {
        let msg = format!("final g has {} elements after {pushed_total} pushes", gv.len());
        std::mem::forget((p, g, fixed, gv));
        return Err(msg);
    }
    let mut keys = sorted_keys(&gv);
    keys.dedup();
    if keys.len() != gv.len() {
        let msg = format!("final g = {}: a pushed value is duplicated or lost", show(&gv));
        std::mem::forget((p, g, fixed, gv));
        return Err(msg);
    }
    Ok(4 * iters)
}
