//! Elements whose clone is observable: a registered host type whose `Clone` reports the
//! address it reads from (`roto::verif::ptr_use`). `u64` elements are copied with a
//! memcpy under the lock; elements with a clone function are cloned by calling that
//! function, and WHERE that call stands relative to the guard is a question of its
//! own (seeded change C16-9: `ffi::list_get` released the guard right before calling
//! the element's clone function, "so that a panicking clone cannot poison the mutex";
//! the pointer-use hook in front of it still saw the lock held).
//!
//! All programs of 2 threads x 2 operations over {Rust get, script get, relocating
//! push, script contains} on one list of such elements, every schedule up to two
//! preemptions; monitors: lockset assertion and buffer generation at the moment the
//! element's `Clone` reads its source.

use c00sched::{Alarm, ThreadSpec, explore};
use roto::{List, NoCtx, Runtime, TypedFunc, Val, library};
use vcore::{Cx, Value, json};

#[derive(PartialEq, Debug)]
pub struct Pe(pub u64);

impl Clone for Pe {
    fn clone(&self) -> Pe {
        roto::verif::ptr_use(self as *const Pe as usize, "Pe::clone");
        Pe(self.0)
    }
}

#[derive(Clone, Copy, Debug, PartialEq, Eq, PartialOrd, Ord)]
pub enum Op {
    Get,
    ScriptGet,
    Push,
    ScriptContains,
}

const MENU: [Op; 4] = [Op::Get, Op::ScriptGet, Op::Push, Op::ScriptContains];

impl Op {
    fn name(self) -> &'static str {
        match self {
            Op::Get => "a.get(0)",
            Op::ScriptGet => "script{a.get(0)}",
            Op::Push => "a.push(e)",
            Op::ScriptContains => "script{a.contains(e)}",
        }
    }
}

pub const SCRIPT: &str = "fn g(l: List[Pe], i: u64) -> Pe? { l.get(i) }\nfn c(l: List[Pe], e: Pe) -> bool { l.contains(e) }\n";

pub fn runtime() -> Runtime<NoCtx> {
    let mut rt = host::runtime();
    rt.add(library! {
        #[clone] type Pe = Val<Pe>;
    })
    .expect("Pe registers");
    rt
}

pub type Program = Vec<Vec<Op>>;

pub fn programs() -> Vec<Program> {
    let per: Vec<Vec<Op>> = MENU.iter().flat_map(|a| MENU.iter().map(move |b| vec![*a, *b])).collect();
    let mut out = vec![];
    for (i, x) in per.iter().enumerate() {
        for y in per.iter().skip(i) {
            out.push(vec![x.clone(), y.clone()]);
        }
    }
    out
}

pub fn prog_json(p: &Program) -> Value {
    json!(p.iter().map(|t| t.iter().map(|o| o.name()).collect::<Vec<_>>()).collect::<Vec<_>>())
}

#[derive(Clone)]
pub struct Scripts {
    pub get: TypedFunc<NoCtx, fn(List<Val<Pe>>, u64) -> Option<Val<Pe>>>,
    pub contains: TypedFunc<NoCtx, fn(List<Val<Pe>>, Val<Pe>) -> bool>,
}

pub struct Outcome {
    pub schedules: u64,
    pub points: u64,
    /// (class, schedule, preemptions)
    pub failures: Vec<(String, Vec<usize>, usize)>,
}

pub fn run_program(p: &Program, s: &Scripts) -> Outcome {
    let mut failures: Vec<(String, Vec<usize>, usize)> = vec![];
    let stats = explore(
        2,
        || {
            let a: List<Val<Pe>> = List::new();
            for k in 1..=4 {
                a.push(Val(Pe(k)));
            }
            let mut specs = vec![];
            for ops in p.iter() {
                let a = a.clone();
                let ops = ops.clone();
                let s = s.clone();
                specs.push(ThreadSpec {
                    unwind_ok: false,
                    body: Box::new(move || {
                        for op in ops {
                            match op {
                                Op::Get => {
                                    let _ = a.get(0);
                                }
                                Op::ScriptGet => {
                                    let _ = s.get.call(a.clone(), 0);
                                }
                                Op::Push => a.push(Val(Pe(9))),
                                Op::ScriptContains => {
                                    let _ = s.contains.call(a.clone(), Val(Pe(3)));
                                }
                            }
                        }
                    }),
                });
            }
            (specs, a)
        },
        |x, a| {
            let mut add = |class: String| {
                if !failures.iter().any(|f| f.0 == class) {
                    failures.push((class, x.choices.clone(), x.preemptions));
                }
            };
            for al in &x.alarms {
                match al {
                    Alarm::StalePointer { site, .. } => add(format!("stale-pointer@{site}")),
                    Alarm::Unguarded { site, .. } => add(format!("unguarded-read@{site}")),
                    Alarm::BadBuffer { what } => add(format!("bad-buffer:{what}")),
                }
            }
            for (_, msg) in &x.panics {
                add(format!("panic: {msg}"));
            }
            if x.deadlock.is_some() {
                add("deadlock".into());
                std::mem::forget(a);
            }
            if x.diverged {
                add("machinery:diverged".into());
            }
            true
        },
    );
    Outcome { schedules: stats.schedules, points: stats.points, failures }
}

/// the whole family as one unit
pub fn run(cx: &mut Cx) {
    if !cx.case(vcore::SUB_SETUP) {
        return;
    }
    let rt = runtime();
    let mut pkg = match host::compile(&rt, SCRIPT) {
        Ok(p) => p,
        Err(e) => {
            cx.violation("compile", vcore::SUB_SETUP, json!(SCRIPT), json!("compiles"), json!(format!("{e:?}")));
            return;
        }
    };
    let scripts = Scripts { get: pkg.get_function("g").expect("g"), contains: pkg.get_function("c").expect("c") };
    for (i, p) in programs().iter().enumerate() {
        if !cx.case(i as u64) {
            continue;
        }
        let o = run_program(p, &scripts);
        cx.states(o.schedules);
        cx.transitions(o.points);
        cx.validated(o.schedules);
        cx.count("programs", 1);
        cx.count("clone_family_programs", 1);
        cx.count("clone_family_schedules", o.schedules);
        if o.schedules > 1 {
            cx.nontrivial(vcore::util::fnv_str(&format!("cloned{p:?}")));
        }
        cx.outcome(vcore::util::mix(vcore::util::fnv_str(&format!("cloned{p:?}")), o.schedules));
        for (class, schedule, preemptions) in o.failures {
            cx.violation(
                class.clone(),
                i as u64,
                json!({"family": "elements with an observable clone (a registered type whose Clone reports the address it reads)",
                       "program": prog_json(p), "ops": p.iter().flatten().map(|o| format!("{o:?}")).collect::<Vec<_>>(),
                       "schedule": schedule, "preemptions": preemptions}),
                json!("the element's clone reads its source while the list lock is held and the buffer is the one the pointer was made in"),
                json!(class),
            );
        }
    }
    cx.request_restart();
}

pub fn describe(sub: u64) -> Value {
    json!({"family": "elements with an observable clone", "program": programs().get(sub as usize).map(prog_json)})
}
