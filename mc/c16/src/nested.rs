//! C16, nested family: lists whose ELEMENTS are shared lists.
//!
//! `o1 = [y1, x1, e, e]` and `o2 = [y2, x2, e, e]` are `List<List<u64>>`; the
//! inner lists are shared between the threads too. Element operations of the
//! outer list (clone, drop, `==` through the vtable) now take locks of their
//! own, and `==` / `contains` / `index` on the outer list read every inner
//! list. Every program over the menu is run under every schedule up to the
//! preemption bound; oracles as in the flat family (stale / unguarded element
//! pointer, deadlock, panic, linearizability w.r.t. the shared-vector model,
//! final contents).
//!
//! Linearizability is judged twice. STRONG: every call takes effect at one
//! instant. WEAK: a deep read (`==`, `contains`, `index` on the outer list)
//! reads the outer list(s) at one instant and keeps them unchanged until it
//! returns, but compares its inner pairs one by one, each at its own instant,
//! in index order. A history that is weakly but not strongly linearizable is
//! the class `non-linearizable:deep-read-torn` (what an implementation that
//! holds the outer locks and takes the inner locks pair by pair can produce);
//! a history that is not even weakly linearizable is `non-linearizable`.

use std::sync::{Arc, Mutex};

use c00sched::{Alarm, Exec, ThreadSpec, explore, now};
use roto::{List, NoCtx, TypedFunc};
use vcore::{Tier, Value, json};

pub const SCRIPT: &str = "\
fn q2(x: List[List[u64]], y: List[List[u64]]) -> bool { x == y }
fn c2(x: List[List[u64]], i: List[u64]) -> bool { x.contains(i) }
fn i2(x: List[List[u64]], i: List[u64]) -> u64? { x.index(i) }
fn g2(x: List[List[u64]], i: u64) -> List[u64]? { x.get(i) }
";

type LL = List<List<u64>>;

#[derive(Clone)]
pub struct Scripts {
    pub q2: TypedFunc<NoCtx, fn(LL, LL) -> bool>,
    pub c2: TypedFunc<NoCtx, fn(LL, List<u64>) -> bool>,
    pub i2: TypedFunc<NoCtx, fn(LL, List<u64>) -> Option<u64>>,
    pub g2: TypedFunc<NoCtx, fn(LL, u64) -> Option<List<u64>>>,
}

// inner list ids
const Y1: usize = 0;
const X1: usize = 1;
const Y2: usize = 2;
const X2: usize = 3;
const E: usize = 4;
const INNER: usize = 5;

#[derive(Clone, Copy, Debug, PartialEq, Eq)]
pub enum NOp {
    NScriptEq12,     // script: o1 == o2
    NScriptEq21,     // script: o2 == o1
    NPushY1,         // y1.push(7)
    NPushX1,         // x1.push(7)
    NScriptContains, // script: o1.contains(x2)
    NPushO1,         // o1.push(x2)   (relocates the outer buffer)
    NScriptGet1,     // script: o1.get(1) -> a handle of x1
    NRustEq12,       // Rust: o1 == o2
    NRustContains,   // Rust: o1.contains(&x2)
    NRustGet1,       // Rust: o1.get(1)
    NScriptIndex,    // script: o1.index(x2)
    NSwapO1,         // o1.swap(0, 1)
    NPushX2,         // x2.push(7)
}

use NOp::*;

const MENU_QUICK: [NOp; 7] = [NScriptEq12, NScriptEq21, NPushY1, NPushX1, NScriptContains, NPushO1, NScriptGet1];
const MENU_FULL: [NOp; 13] = [
    NScriptEq12,
    NScriptEq21,
    NPushY1,
    NPushX1,
    NScriptContains,
    NPushO1,
    NScriptGet1,
    NRustEq12,
    NRustContains,
    NRustGet1,
    NScriptIndex,
    NSwapO1,
    NPushX2,
];

impl NOp {
    pub fn name(self) -> &'static str {
        match self {
            NScriptEq12 => "script{o1 == o2}",
            NScriptEq21 => "script{o2 == o1}",
            NPushY1 => "y1.push(7)",
            NPushX1 => "x1.push(7)",
            NScriptContains => "script{o1.contains(x2)}",
            NPushO1 => "o1.push(x2)",
            NScriptGet1 => "script{o1.get(1)}",
            NRustEq12 => "o1 == o2",
            NRustContains => "o1.contains(&x2)",
            NRustGet1 => "o1.get(1)",
            NScriptIndex => "script{o1.index(x2)}",
            NSwapO1 => "o1.swap(0,1)",
            NPushX2 => "x2.push(7)",
        }
    }
    fn uses_script(self) -> bool {
        matches!(self, NScriptEq12 | NScriptEq21 | NScriptContains | NScriptGet1 | NScriptIndex)
    }
    fn is_eq(self) -> bool {
        matches!(self, NScriptEq12 | NScriptEq21 | NRustEq12)
    }
    fn is_deep(self) -> bool {
        self.is_eq() || matches!(self, NScriptContains | NRustContains | NScriptIndex)
    }
    /// mutates the outer list o1
    fn writes_o1(self) -> bool {
        matches!(self, NPushO1 | NSwapO1)
    }
}

#[derive(Clone, Debug, PartialEq, Eq)]
pub enum NRes {
    Unit,
    Bool(bool),
    Idx(Option<u64>),
    /// which inner list the returned handle refers to
    Alias(Option<usize>),
}

#[derive(Clone, Debug, PartialEq, Eq)]
struct Model {
    inner: Vec<Vec<u64>>,
    o1: Vec<usize>,
    o2: Vec<usize>,
}

fn init_model() -> Model {
    let mut inner = vec![vec![]; INNER];
    inner[X2] = vec![7];
    Model { inner, o1: vec![Y1, X1, E, E], o2: vec![Y2, X2, E, E] }
}

/// the whole operation at one instant
fn model_apply(m: &mut Model, op: NOp) -> NRes {
    match op {
        NScriptEq12 | NScriptEq21 | NRustEq12 => NRes::Bool(
            m.o1.len() == m.o2.len() && m.o1.iter().zip(&m.o2).all(|(a, b)| m.inner[*a] == m.inner[*b]),
        ),
        NPushY1 => {
            m.inner[Y1].push(7);
            NRes::Unit
        }
        NPushX1 => {
            m.inner[X1].push(7);
            NRes::Unit
        }
        NPushX2 => {
            m.inner[X2].push(7);
            NRes::Unit
        }
        NScriptContains | NRustContains => NRes::Bool(m.o1.iter().any(|a| m.inner[*a] == m.inner[X2])),
        NScriptIndex => NRes::Idx(m.o1.iter().position(|a| m.inner[*a] == m.inner[X2]).map(|i| i as u64)),
        NPushO1 => {
            m.o1.push(X2);
            NRes::Unit
        }
        NSwapO1 => {
            m.o1.swap(0, 1);
            NRes::Unit
        }
        NScriptGet1 | NRustGet1 => NRes::Alias(m.o1.get(1).copied()),
    }
}

pub struct Lists {
    inner: Vec<List<u64>>,
    o1: LL,
    o2: LL,
}

fn list_addr<T: roto::Value>(l: &List<T>) -> usize {
    // SAFETY: `List<T>` is a single `Arc` (plus a zero-sized marker); reads one word of a live value
    unsafe { *(l as *const List<T> as *const usize) }
}

/// Fresh lists; the relative ADDRESS order of the inner lists (which decides the
/// order in which a pair of them is locked) is the same in every execution:
/// y1 < y2 < x1 < x2 < e; `o1_low` chooses the order of the two outer lists.
fn init_lists(o1_low: bool) -> Lists {
    let mut raw: Vec<List<u64>> = (0..INNER).map(|_| List::new()).collect();
    raw.sort_by_key(list_addr);
    // sorted positions -> ids
    let order = [Y1, Y2, X1, X2, E];
    let mut inner: Vec<Option<List<u64>>> = (0..INNER).map(|_| None).collect();
    for (l, id) in raw.into_iter().zip(order) {
        inner[id] = Some(l);
    }
    let inner: Vec<List<u64>> = inner.into_iter().map(|l| l.unwrap()).collect();
    inner[X2].push(7);
    let p: LL = List::new();
    let q: LL = List::new();
    let p_low = list_addr(&p) < list_addr(&q);
    let (o1, o2) = if p_low == o1_low { (p, q) } else { (q, p) };
    for id in [Y1, X1, E, E] {
        o1.push(inner[id].clone());
    }
    for id in [Y2, X2, E, E] {
        o2.push(inner[id].clone());
    }
    Lists { inner, o1, o2 }
}

fn alias_of(l: &Lists, h: &Option<List<u64>>) -> NRes {
    NRes::Alias(h.as_ref().map(|h| {
        let a = list_addr(h);
        l.inner.iter().position(|x| list_addr(x) == a).unwrap_or(usize::MAX)
    }))
}

fn real_apply(op: NOp, l: &Lists, s: &Scripts) -> NRes {
    match op {
        NScriptEq12 => NRes::Bool(s.q2.call(l.o1.clone(), l.o2.clone())),
        NScriptEq21 => NRes::Bool(s.q2.call(l.o2.clone(), l.o1.clone())),
        NRustEq12 => NRes::Bool(l.o1 == l.o2),
        NPushY1 => {
            l.inner[Y1].push(7);
            NRes::Unit
        }
        NPushX1 => {
            l.inner[X1].push(7);
            NRes::Unit
        }
        NPushX2 => {
            l.inner[X2].push(7);
            NRes::Unit
        }
        NScriptContains => NRes::Bool(s.c2.call(l.o1.clone(), l.inner[X2].clone())),
        NRustContains => NRes::Bool(l.o1.contains(&l.inner[X2])),
        NScriptIndex => NRes::Idx(s.i2.call(l.o1.clone(), l.inner[X2].clone())),
        NPushO1 => {
            l.o1.push(l.inner[X2].clone());
            NRes::Unit
        }
        NSwapO1 => {
            l.o1.swap(0, 1);
            NRes::Unit
        }
        NScriptGet1 => alias_of(l, &s.g2.call(l.o1.clone(), 1)),
        NRustGet1 => alias_of(l, &l.o1.get(1)),
    }
}

pub type Program = Vec<Vec<NOp>>;

#[derive(Clone, Debug)]
struct Call {
    tid: usize,
    op: NOp,
    inv: u64,
    ret: u64,
    res: NRes,
}

/// progress of a deep read in the weak model
#[derive(Clone, Debug, PartialEq, Eq)]
enum Prog {
    NotStarted,
    /// outer snapshot taken; `next` = index of the next pair to compare
    Running { left: Vec<usize>, right: Vec<usize>, next: usize },
    Done,
}

/// Is there an order of the calls (STRONG: each atomic; WEAK: deep reads split
/// into per-pair steps) consistent with real-time order that explains every
/// result and the final state?
fn linearizable(calls: &[Call], weak: bool, fin: &Model) -> bool {
    fn complete(p: &Prog) -> bool {
        *p == Prog::Done
    }
    fn rec(calls: &[Call], weak: bool, prog: &mut Vec<Prog>, m: &Model, fin: &Model) -> bool {
        if prog.iter().all(complete) {
            return m == fin;
        }
        for i in 0..calls.len() {
            let c = &calls[i];
            match prog[i].clone() {
                Prog::Done => continue,
                Prog::NotStarted => {
                    // may start only when every call that returned before its invocation is complete
                    let minimal = (0..calls.len()).all(|j| j == i || complete(&prog[j]) || calls[j].ret > c.inv);
                    if !minimal {
                        continue;
                    }
                    if weak && (c.op.writes_o1() || c.op.is_deep()) {
                        // the outer list is locked by a deep read in progress
                        let blocked = (0..calls.len()).any(|j| matches!(prog[j], Prog::Running { .. }));
                        if blocked {
                            continue;
                        }
                    }
                    if weak && c.op.is_deep() {
                        // step 0: read the outer list(s)
                        let (left, right) = if c.op.is_eq() {
                            (m.o1.clone(), m.o2.clone())
                        } else {
                            (m.o1.clone(), vec![X2; m.o1.len()])
                        };
                        if c.op.is_eq() && left.len() != right.len() {
                            if c.res == NRes::Bool(false) {
                                prog[i] = Prog::Done;
                                if rec(calls, weak, prog, m, fin) {
                                    return true;
                                }
                                prog[i] = Prog::NotStarted;
                            }
                            continue;
                        }
                        prog[i] = Prog::Running { left, right, next: 0 };
                        if rec(calls, weak, prog, m, fin) {
                            return true;
                        }
                        prog[i] = Prog::NotStarted;
                    } else {
                        let mut m2 = m.clone();
                        if model_apply(&mut m2, c.op) == c.res {
                            prog[i] = Prog::Done;
                            if rec(calls, weak, prog, &m2, fin) {
                                return true;
                            }
                            prog[i] = Prog::NotStarted;
                        }
                    }
                }
                Prog::Running { left, right, next } => {
                    // compare pair `next` now
                    let saved = prog[i].clone();
                    let end_value: Option<NRes>;
                    if next == left.len() {
                        // ran off the end
                        end_value = Some(match c.op {
                            NScriptIndex => NRes::Idx(None),
                            o if o.is_eq() => NRes::Bool(true),
                            _ => NRes::Bool(false),
                        });
                    } else {
                        let same = m.inner[left[next]] == m.inner[right[next]];
                        end_value = if c.op.is_eq() {
                            if same { None } else { Some(NRes::Bool(false)) }
                        } else if same {
                            Some(if c.op == NScriptIndex { NRes::Idx(Some(next as u64)) } else { NRes::Bool(true) })
                        } else {
                            None
                        };
                    }
                    match end_value {
                        Some(v) => {
                            if v == c.res {
                                prog[i] = Prog::Done;
                                if rec(calls, weak, prog, m, fin) {
                                    return true;
                                }
                            }
                        }
                        None => {
                            prog[i] = Prog::Running { left, right, next: next + 1 };
                            if rec(calls, weak, prog, m, fin) {
                                return true;
                            }
                        }
                    }
                    prog[i] = saved;
                }
            }
        }
        false
    }
    rec(calls, weak, &mut vec![Prog::NotStarted; calls.len()], &init_model(), fin)
}

pub fn menu(tier: Tier) -> &'static [NOp] {
    tier.pick(&MENU_QUICK[..], &MENU_FULL[..])
}

pub fn bound(_tier: Tier) -> usize {
    2
}

/// all 2-thread x 2-operation programs over the menu, threads sorted
pub fn programs(tier: Tier) -> Vec<Program> {
    let m = menu(tier);
    let n = m.len();
    let mut out = vec![];
    for i in 0..n * n {
        for j in i..n * n {
            out.push(vec![vec![m[i / n], m[i % n]], vec![m[j / n], m[j % n]]]);
        }
    }
    out
}

pub fn prog_json(p: &Program) -> Value {
    json!(p.iter().map(|t| t.iter().map(|o| o.name()).collect::<Vec<_>>()).collect::<Vec<_>>())
}

pub struct Failure {
    pub class: String,
    pub detail: Value,
    pub schedule: Vec<usize>,
    pub preemptions: usize,
    pub count: u64,
    last_exec: u64,
}

#[derive(Default)]
pub struct Stats {
    pub schedules: u64,
    pub points: u64,
    pub outcomes: u64,
}

pub fn run_program(p: &Program, o1_low: bool, bound: usize, scripts: &Scripts) -> (Stats, Vec<Failure>) {
    let mut failures: Vec<Failure> = vec![];
    let mut outcomes = std::collections::HashSet::new();
    let exec_no = std::cell::Cell::new(0u64);
    let mut add = |class: String, detail: Value, x: &Exec| {
        if let Some(f) = failures.iter_mut().find(|f| f.class == class) {
            if f.last_exec != exec_no.get() {
                f.count += 1;
                f.last_exec = exec_no.get();
            }
            if x.preemptions < f.preemptions || (x.preemptions == f.preemptions && x.choices.len() < f.schedule.len()) {
                f.preemptions = x.preemptions;
                f.schedule = x.choices.clone();
                f.detail = detail;
            }
        } else {
            failures.push(Failure {
                class,
                detail,
                schedule: x.choices.clone(),
                preemptions: x.preemptions,
                count: 1,
                last_exec: exec_no.get(),
            });
        }
    };
    let st = explore(
        bound,
        || {
            let lists = Arc::new(init_lists(o1_low));
            let calls = Arc::new(Mutex::new(Vec::<Call>::new()));
            let mut specs = vec![];
            for (tid, ops) in p.iter().enumerate() {
                let lists = lists.clone();
                let ops = ops.clone();
                let calls = calls.clone();
                let s = scripts.clone();
                let unwind_ok = !ops.iter().any(|o| o.uses_script());
                specs.push(ThreadSpec {
                    unwind_ok,
                    body: Box::new(move || {
                        for op in ops {
                            let inv = now();
                            let res = real_apply(op, &lists, &s);
                            let ret = now();
                            calls.lock().unwrap().push(Call { tid, op, inv, ret, res });
                        }
                    }),
                });
            }
            (specs, (lists, calls))
        },
        |x, (lists, calls)| {
            exec_no.set(exec_no.get() + 1);
            let stale = x.alarms.iter().any(|a| matches!(a, Alarm::StalePointer { .. }));
            for al in &x.alarms {
                match al {
                    Alarm::StalePointer { site, .. } => add(format!("stale-pointer@{site}"), json!({"site": site}), x),
                    Alarm::Unguarded { site, .. } => add(format!("unguarded-read@{site}"), json!({"site": site}), x),
                    Alarm::BadBuffer { what } => add(format!("bad-buffer:{what}"), json!(what), x),
                }
            }
            for (tid, msg) in &x.panics {
                add("panic".into(), json!({"tid": tid, "msg": msg}), x);
            }
            if x.diverged {
                add("machinery:diverged".into(), json!(null), x);
            }
            if x.horizon_hit {
                add("machinery:horizon".into(), json!(null), x);
            }
            if let Some(d) = &x.deadlock {
                let mut sites: Vec<String> = d
                    .iter()
                    .map(|(_, p)| match p {
                        c00sched::Point::Lock { site, .. } => site.to_string(),
                        other => format!("{other:?}"),
                    })
                    .collect();
                sites.sort();
                add(format!("deadlock@{}", sites.join("+")), json!({"waiting": sites}), x);
                // lists may be locked by leaked threads: never touch or free them
                std::mem::forget(lists);
                outcomes.insert(vcore::util::fnv_str(&format!("deadlock{sites:?}")));
            } else if x.panics.is_empty() {
                let calls = calls.lock().unwrap().clone();
                let id_of = |h: &List<u64>| {
                    let a = list_addr(h);
                    lists.inner.iter().position(|x| list_addr(x) == a).unwrap_or(usize::MAX)
                };
                let fin = Model {
                    inner: lists.inner.iter().map(|l| l.to_vec()).collect(),
                    o1: lists.o1.to_vec().iter().map(id_of).collect(),
                    o2: lists.o2.to_vec().iter().map(id_of).collect(),
                };
                if !stale && !linearizable(&calls, false, &fin) {
                    let class = if linearizable(&calls, true, &fin) {
                        "non-linearizable:deep-read-torn"
                    } else {
                        "non-linearizable"
                    };
                    add(
                        class.into(),
                        json!({"calls": calls.iter().map(|c| format!("t{} {} -> {:?} [{}..{}]", c.tid, c.op.name(), c.res, c.inv, c.ret)).collect::<Vec<_>>(),
                               "final_inner[y1,x1,y2,x2,e]": fin.inner, "final_o1": fin.o1, "final_o2": fin.o2}),
                        x,
                    );
                }
                let mut cs: Vec<String> = calls.iter().map(|c| format!("{}{:?}{:?}", c.tid, c.op, c.res)).collect();
                cs.sort();
                outcomes.insert(vcore::util::mix(
                    vcore::util::fnv_str(&format!("{fin:?}")),
                    vcore::util::fnv_str(&cs.join(";")),
                ));
            }
            true
        },
    );
    (Stats { schedules: st.schedules, points: st.points, outcomes: outcomes.len() as u64 }, failures)
}

#[cfg(test)]
mod tests {
    use super::*;

    fn call(tid: usize, op: NOp, inv: u64, ret: u64, res: NRes) -> Call {
        Call { tid, op, inv, ret, res }
    }

    /// the torn comparison: o1 == o2 overlapping y1.push; x1.push says `true`
    #[test]
    fn torn_eq_is_weak_only() {
        let mut fin = init_model();
        fin.inner[Y1].push(7);
        fin.inner[X1].push(7);
        let calls = vec![
            call(0, NScriptEq12, 0, 9, NRes::Bool(true)),
            call(1, NPushY1, 2, 3, NRes::Unit),
            call(1, NPushX1, 4, 5, NRes::Unit),
        ];
        assert!(!linearizable(&calls, false, &fin));
        assert!(linearizable(&calls, true, &fin));
        // not overlapping: `true` is not explainable at all
        let calls = vec![
            call(0, NScriptEq12, 0, 1, NRes::Bool(true)),
            call(1, NPushY1, 2, 3, NRes::Unit),
            call(1, NPushX1, 4, 5, NRes::Unit),
        ];
        assert!(!linearizable(&calls, true, &fin));
        let calls = vec![
            call(0, NScriptEq12, 0, 1, NRes::Bool(false)),
            call(1, NPushY1, 2, 3, NRes::Unit),
            call(1, NPushX1, 4, 5, NRes::Unit),
        ];
        assert!(linearizable(&calls, false, &fin));
    }

    /// an outer push in the middle of a deep read is not explained by the weak model
    #[test]
    fn outer_write_inside_deep_read_is_not_weak() {
        let mut fin = init_model();
        fin.o1.push(X2);
        // contains(x2) over [y1,x1,e,e] is false; after the push it is true.
        // `true` from a call that was INVOKED before the push and returned after it is fine (atomic after the push)
        let calls = vec![
            call(0, NScriptContains, 0, 9, NRes::Bool(true)),
            call(1, NPushO1, 2, 3, NRes::Unit),
        ];
        assert!(linearizable(&calls, false, &fin));
        // index 4 likewise
        let calls = vec![call(0, NScriptIndex, 0, 9, NRes::Idx(Some(4))), call(1, NPushO1, 2, 3, NRes::Unit)];
        assert!(linearizable(&calls, false, &fin));
        // but index 4 from a call that returned before the push is not
        let calls = vec![call(0, NScriptIndex, 0, 1, NRes::Idx(Some(4))), call(1, NPushO1, 2, 3, NRes::Unit)];
        assert!(!linearizable(&calls, true, &fin));
    }
}
