//! C16 — lists stay memory-safe when shared between threads.
//!
//! Subject: the real `List<T>` / `ErasedList` / `RawList` code with the H1
//! hooks. Every program of 2 threads x 2 operations (thorough: also 2 x 3 and
//! 3 x 2) over the operation menu is run under EVERY schedule up to the
//! preemption bound by the controlled scheduler (`c00sched`).
//!
//! Oracles per execution: no stale element pointer, no element read outside
//! the critical section, no deadlock, the call/return history is linearizable
//! w.r.t. the shared-vector model (brute force), final contents agree, no
//! panic, tracked elements balance.

use std::sync::{Arc, Mutex};

use c00sched::{Alarm, Exec, ThreadSpec, explore, now};
use roto::{List, NoCtx, TypedFunc, Val};
use vcore::{Cfg, Check, Cx, Finding, Meta, SUB_SETUP, Tier, Value, Violation, json};

mod cloned;
mod free;
mod nested;

/// The operation menu. `a` is pre-filled to its capacity (4 elements: the next
/// push relocates the buffer), `b` holds one element.
#[derive(Clone, Copy, Debug, PartialEq, Eq)]
enum Op {
    GetA0,       // Rust: a.get(0)
    ScriptGetA0, // script: l.get(0) through ffi::list_get
    PushA,       // a.push(9)  (relocates)
    ConcatAB,    // a.concat(&b)
    ContainsA2,  // a.contains(&2)
    SwapA01,     // a.swap(0, 1)
    CloneDropA,  // clone a handle and drop it
    ScriptEqAB,  // script: a == b  (ErasedList::eq)
    ScriptEqBA,  // script: b == a
    LenA,        // a.len()
    PushB,       // b.push(7)
    GetA3,       // a.get(3) (last element)
    ToVecA,      // a.to_vec()
    ConcatBA,    // b.concat(&a)
    RustEqAB,    // Rust: a == b (List::eq)
    RustEqBA,    // Rust: b == a
    ConcatAA,    // a.concat(&a)
    // script-side operations: the type-erased entry points of the runtime
    // (`contains_owned`, `index_owned`, `push`, `swap`, `concat`, `len`), which
    // the typed Rust API does not go through
    ScriptContainsA2, // script: l.contains(2)
    ScriptIndexA2,    // script: l.index(2)
    ScriptPushA,      // script: l.push(9) (relocates)
    ScriptSwapA01,    // script: l.swap(0, 1)
    ScriptConcatAB,   // script: x + y
    ScriptLenA,       // script: l.len()
    IndexA2,          // Rust: a.index(&2)
    RustEqAA,         // Rust: a == a' (two handles of ONE list: a code path of its own)
}

const MENU_QUICK: [Op; 10] = [
    Op::RustEqAB,
    Op::PushB,
    Op::GetA0,
    Op::ScriptGetA0,
    Op::PushA,
    Op::ConcatAB,
    Op::ConcatBA,
    Op::ContainsA2,
    Op::ScriptEqAB,
    Op::ScriptEqBA,
];
const MENU_FULL: [Op; 17] = [
    Op::ConcatAA,
    Op::GetA0,
    Op::ScriptGetA0,
    Op::PushA,
    Op::ConcatAB,
    Op::ContainsA2,
    Op::SwapA01,
    Op::CloneDropA,
    Op::ScriptEqAB,
    Op::ScriptEqBA,
    Op::LenA,
    Op::PushB,
    Op::GetA3,
    Op::ToVecA,
    Op::ConcatBA,
    Op::RustEqAB,
    Op::RustEqBA,
];

/// The script-side family: every type-erased entry point against the writers
/// (Rust and script side) and against each other.
const MENU_SCRIPT: [Op; 11] = [
    Op::RustEqAA,
    Op::ScriptContainsA2,
    Op::ScriptIndexA2,
    Op::ScriptPushA,
    Op::ScriptSwapA01,
    Op::ScriptConcatAB,
    Op::ScriptLenA,
    Op::IndexA2,
    Op::PushA,
    Op::ScriptGetA0,
    Op::PushB,
];

/// quick: the type-erased entry points that scan or write, against the relocating pushes
const MENU_SCRIPT_QUICK: [Op; 7] = [
    Op::RustEqAA,
    Op::ScriptContainsA2,
    Op::ScriptIndexA2,
    Op::ScriptPushA,
    Op::ScriptSwapA01,
    Op::ScriptConcatAB,
    Op::PushA,
];

impl Op {
    fn uses_script(self) -> bool {
        matches!(
            self,
            Op::ScriptGetA0
                | Op::ScriptEqAB
                | Op::ScriptEqBA
                | Op::ScriptContainsA2
                | Op::ScriptIndexA2
                | Op::ScriptPushA
                | Op::ScriptSwapA01
                | Op::ScriptConcatAB
                | Op::ScriptLenA
        )
    }
    fn name(self) -> &'static str {
        match self {
            Op::GetA0 => "a.get(0)",
            Op::ScriptGetA0 => "script{a.get(0)}",
            Op::PushA => "a.push(9)",
            Op::ConcatAB => "a.concat(b)",
            Op::ContainsA2 => "a.contains(2)",
            Op::SwapA01 => "a.swap(0,1)",
            Op::CloneDropA => "drop(a.clone())",
            Op::ScriptEqAB => "script{a == b}",
            Op::ScriptEqBA => "script{b == a}",
            Op::LenA => "a.len()",
            Op::PushB => "b.push(7)",
            Op::GetA3 => "a.get(3)",
            Op::ToVecA => "a.to_vec()",
            Op::ConcatBA => "b.concat(a)",
            Op::RustEqAB => "a == b",
            Op::RustEqBA => "b == a",
            Op::ConcatAA => "a.concat(a)",
            Op::ScriptContainsA2 => "script{a.contains(2)}",
            Op::ScriptIndexA2 => "script{a.index(2)}",
            Op::ScriptPushA => "script{a.push(9)}",
            Op::ScriptSwapA01 => "script{a.swap(0,1)}",
            Op::ScriptConcatAB => "script{a + b}",
            Op::ScriptLenA => "script{a.len()}",
            Op::IndexA2 => "a.index(2)",
            Op::RustEqAA => "a == a'",
        }
    }
}

/// Result of an operation (also the model's)
#[derive(Clone, Debug, PartialEq, Eq)]
enum Res {
    /// a private result list, converted to `Vec` on the main thread after the
    /// execution (reading it inside the thread would only add schedule points
    /// on an unshared list)
    Pending(ListBox),
    Unit,
    Opt(Option<u64>),
    Bool(bool),
    Len(usize),
    Vec(Vec<u64>),
    Idx(Option<u64>),
}

#[derive(Clone)]
struct ListBox(List<u64>);
impl PartialEq for ListBox {
    fn eq(&self, _: &ListBox) -> bool {
        false
    }
}
impl Eq for ListBox {}
impl std::fmt::Debug for ListBox {
    fn fmt(&self, f: &mut std::fmt::Formatter<'_>) -> std::fmt::Result {
        write!(f, "<list>")
    }
}

#[derive(Clone, Default)]
struct Model {
    a: Vec<u64>,
    b: Vec<u64>,
}

fn model_apply(m: &mut Model, op: Op) -> Res {
    match op {
        Op::GetA0 | Op::ScriptGetA0 => Res::Opt(m.a.first().copied()),
        Op::GetA3 => Res::Opt(m.a.get(3).copied()),
        Op::PushA | Op::ScriptPushA => {
            m.a.push(9);
            Res::Unit
        }
        Op::PushB => {
            m.b.push(7);
            Res::Unit
        }
        Op::ConcatAB | Op::ScriptConcatAB => {
            let mut v = m.a.clone();
            v.extend(&m.b);
            Res::Vec(v)
        }
        Op::ConcatBA => {
            let mut v = m.b.clone();
            v.extend(&m.a);
            Res::Vec(v)
        }
        Op::ConcatAA => {
            let mut v = m.a.clone();
            v.extend(&m.a);
            Res::Vec(v)
        }
        Op::ContainsA2 | Op::ScriptContainsA2 => Res::Bool(m.a.contains(&2)),
        Op::IndexA2 | Op::ScriptIndexA2 => Res::Idx(m.a.iter().position(|x| *x == 2).map(|i| i as u64)),
        Op::SwapA01 | Op::ScriptSwapA01 => {
            if m.a.len() > 1 {
                m.a.swap(0, 1);
            }
            Res::Unit
        }
        Op::CloneDropA => Res::Unit,
        Op::ScriptEqAB | Op::ScriptEqBA | Op::RustEqAB | Op::RustEqBA => Res::Bool(m.a == m.b),
        Op::RustEqAA => Res::Bool(true),
        Op::LenA | Op::ScriptLenA => Res::Len(m.a.len()),
        Op::ToVecA => Res::Vec(m.a.clone()),
    }
}

type GetFn = TypedFunc<NoCtx, fn(List<u64>, u64) -> Option<u64>>;
type EqFn = TypedFunc<NoCtx, fn(List<u64>, List<u64>) -> bool>;

#[derive(Clone)]
struct Scripts {
    get: GetFn,
    eq: EqFn,
    contains: TypedFunc<NoCtx, fn(List<u64>, u64) -> bool>,
    index: TypedFunc<NoCtx, fn(List<u64>, u64) -> Option<u64>>,
    push: TypedFunc<NoCtx, fn(List<u64>, u64)>,
    swap: TypedFunc<NoCtx, fn(List<u64>, u64, u64)>,
    concat: TypedFunc<NoCtx, fn(List<u64>, List<u64>) -> List<u64>>,
    len: TypedFunc<NoCtx, fn(List<u64>) -> u64>,
}

const SCRIPT: &str = "\
fn g(l: List[u64], i: u64) -> u64? { l.get(i) }
fn q(x: List[u64], y: List[u64]) -> bool { x == y }
fn c(l: List[u64], v: u64) -> bool { l.contains(v) }
fn ix(l: List[u64], v: u64) -> u64? { l.index(v) }
fn p(l: List[u64], v: u64) { l.push(v); }
fn s(l: List[u64], i: u64, j: u64) { l.swap(i, j); }
fn cc(x: List[u64], y: List[u64]) -> List[u64] { x + y }
fn n(l: List[u64]) -> u64 { l.len() }
";

fn real_apply(op: Op, a: &List<u64>, b: &List<u64>, s: &Scripts) -> Res {
    match op {
        Op::GetA0 => Res::Opt(a.get(0)),
        Op::GetA3 => Res::Opt(a.get(3)),
        Op::ScriptGetA0 => Res::Opt(s.get.call(a.clone(), 0)),
        Op::PushA => {
            a.push(9);
            Res::Unit
        }
        Op::PushB => {
            b.push(7);
            Res::Unit
        }
        Op::ConcatAB => Res::Pending(ListBox(a.concat(b))),
        Op::ConcatBA => Res::Pending(ListBox(b.concat(a))),
        Op::ConcatAA => Res::Pending(ListBox(a.concat(a))),
        Op::ContainsA2 => Res::Bool(a.contains(&2)),
        Op::SwapA01 => {
            a.swap(0, 1);
            Res::Unit
        }
        Op::CloneDropA => {
            drop(a.clone());
            Res::Unit
        }
        Op::ScriptEqAB => Res::Bool(s.eq.call(a.clone(), b.clone())),
        Op::ScriptEqBA => Res::Bool(s.eq.call(b.clone(), a.clone())),
        Op::RustEqAB => Res::Bool(a == b),
        Op::RustEqBA => Res::Bool(b == a),
        Op::LenA => Res::Len(a.len()),
        Op::ToVecA => Res::Vec(a.to_vec()),
        Op::ScriptContainsA2 => Res::Bool(s.contains.call(a.clone(), 2)),
        Op::ScriptIndexA2 => Res::Idx(s.index.call(a.clone(), 2)),
        Op::ScriptPushA => {
            s.push.call(a.clone(), 9);
            Res::Unit
        }
        Op::ScriptSwapA01 => {
            s.swap.call(a.clone(), 0, 1);
            Res::Unit
        }
        Op::ScriptConcatAB => Res::Pending(ListBox(s.concat.call(a.clone(), b.clone()))),
        Op::ScriptLenA => Res::Len(s.len.call(a.clone()) as usize),
        Op::IndexA2 => Res::Idx(a.index(&2).map(|i| i as u64)),
        Op::RustEqAA => {
            let a2 = a.clone();
            Res::Bool(*a == a2)
        }
    }
}

/// a program: per thread its list of operations
type Program = Vec<Vec<Op>>;

#[derive(Clone, Debug)]
struct Call {
    tid: usize,
    op: Op,
    inv: u64,
    ret: u64,
    res: Res,
}

/// Is there a total order of the calls, consistent with per-thread order and
/// real-time order, under which the model gives every recorded result and the
/// final contents?
fn linearizable(calls: &[Call], init: &Model, final_a: &[u64], final_b: &[u64]) -> bool {
    fn rec(calls: &[Call], done: &mut Vec<bool>, m: &Model, fa: &[u64], fb: &[u64]) -> bool {
        if done.iter().all(|d| *d) {
            return m.a == fa && m.b == fb;
        }
        for i in 0..calls.len() {
            if done[i] {
                continue;
            }
            // minimal: no other pending call returned before this one was invoked
            let minimal = (0..calls.len()).all(|j| done[j] || j == i || calls[j].ret > calls[i].inv);
            if !minimal {
                continue;
            }
            let mut m2 = m.clone();
            if model_apply(&mut m2, calls[i].op) == calls[i].res {
                done[i] = true;
                if rec(calls, done, &m2, fa, fb) {
                    done[i] = false;
                    return true;
                }
                done[i] = false;
            }
        }
        false
    }
    rec(calls, &mut vec![false; calls.len()], init, final_a, final_b)
}

// ------------------------------------------------------------ enumeration

#[derive(Clone, Debug)]
struct Shape {
    threads: usize,
    ops: usize,
    /// the script-side family (MENU_SCRIPT) instead of the tier's main menu
    script_family: bool,
}

fn shapes(tier: Tier) -> Vec<Shape> {
    match tier {
        Tier::Quick => vec![
            Shape { threads: 2, ops: 2, script_family: false },
            Shape { threads: 2, ops: 2, script_family: true },
        ],
        Tier::Thorough => vec![
            Shape { threads: 2, ops: 2, script_family: false },
            Shape { threads: 2, ops: 3, script_family: false },
            Shape { threads: 3, ops: 2, script_family: false },
            Shape { threads: 2, ops: 2, script_family: true },
            Shape { threads: 3, ops: 1, script_family: true },
        ],
    }
}

/// the operations that matter most for three-operation / three-thread programs
const MENU_SMALL: [Op; 5] = [Op::GetA0, Op::PushA, Op::PushB, Op::ConcatAB, Op::ScriptEqBA];

fn menu(tier: Tier, shape: &Shape) -> &'static [Op] {
    if shape.script_family {
        return match tier {
            Tier::Quick => &MENU_SCRIPT_QUICK,
            Tier::Thorough => &MENU_SCRIPT,
        };
    }
    match tier {
        Tier::Quick => &MENU_QUICK,
        Tier::Thorough => {
            if shape.threads == 2 && shape.ops == 2 {
                &MENU_FULL
            } else {
                &MENU_SMALL
            }
        }
    }
}

fn bound(tier: Tier, shape: &Shape) -> usize {
    if shape.script_family {
        return tier.pick(2, 3);
    }
    match tier {
        Tier::Quick => 2,
        Tier::Thorough => {
            if shape.threads == 2 && shape.ops == 2 {
                3
            } else {
                2
            }
        }
    }
}

/// All programs of a shape, with threads sorted (thread i's op list <= thread
/// i+1's in menu order): threads are symmetric, so this is every program up to
/// renaming of threads.
fn programs(tier: Tier, shape: &Shape) -> Vec<Program> {
    let m = menu(tier, shape);
    let per_thread = (m.len() as u64).pow(shape.ops as u32);
    let decode = |mut k: u64| -> Vec<Op> {
        let mut v = vec![];
        for _ in 0..shape.ops {
            v.push(m[(k % m.len() as u64) as usize]);
            k /= m.len() as u64;
        }
        v.reverse();
        v
    };
    let mut out = vec![];
    let mut idx = vec![0u64; shape.threads];
    loop {
        if idx.windows(2).all(|w| w[0] <= w[1]) {
            out.push(idx.iter().map(|k| decode(*k)).collect());
        }
        // increment
        let mut i = shape.threads;
        loop {
            if i == 0 {
                return out;
            }
            i -= 1;
            idx[i] += 1;
            if idx[i] < per_thread {
                break;
            }
            idx[i] = 0;
        }
    }
}

const PER_UNIT: usize = 8;

fn all_programs(tier: Tier) -> Vec<(usize, Program)> {
    let mut v = vec![];
    for (si, s) in shapes(tier).iter().enumerate() {
        for p in programs(tier, s) {
            v.push((si, p));
        }
    }
    v
}

fn prog_json(p: &Program) -> Value {
    json!(p.iter().map(|t| t.iter().map(|o| o.name()).collect::<Vec<_>>()).collect::<Vec<_>>())
}

// ------------------------------------------------------------ one program

#[derive(Default)]
struct ProgStats {
    schedules: u64,
    points: u64,
}

struct Failure {
    class: String,
    detail: Value,
    schedule: Vec<usize>,
    preemptions: usize,
    count: u64,
    last_exec: u64,
}

/// Address of the shared allocation of a list (the `Arc` behind the handle).
/// `List<T>` is `repr(transparent)` over a single `Arc`, so its first word is
/// that pointer. Only used to make the address order of the two lists — which
/// the implementation's lock order depends on — a controlled input.
fn list_addr(l: &List<u64>) -> usize {
    // SAFETY: see above; reads one word of a live value
    unsafe { *(l as *const List<u64> as *const usize) }
}

/// Initial contents. Config 0: `a` pre-filled to its capacity (the next push
/// relocates), `b` holds one element. Config 1: `a` holds the element 7, `b` is
/// EMPTY (code paths that special-case an empty operand).
#[derive(Clone, Copy, Debug, PartialEq, Eq)]
struct Init {
    a_low: bool,
    config: u8,
    /// the threads share ONE handle of each list by reference (`Arc<List>`) instead of
    /// holding a clone each: the reference count of the list is then 1 while typed Rust
    /// operations run (seeded change C16-8 released the lock early "when nobody else has
    /// a handle")
    by_ref: bool,
}

fn init_lists(init: Init) -> (List<u64>, List<u64>, Model) {
    let x: List<u64> = List::new();
    let y: List<u64> = List::new();
    let x_low = list_addr(&x) < list_addr(&y);
    let (a, b) = if x_low == init.a_low { (x, y) } else { (y, x) };
    let (va, vb): (Vec<u64>, Vec<u64>) = match init.config {
        0 => (vec![1, 2, 3, 4], vec![5]),
        // `b.push(7)` after `a.push(9)` passes through no state in which the
        // lists are equal, but a torn comparison (a before, b after) sees [7] == [7]
        _ => (vec![7], vec![]),
    };
    for x in &va {
        a.push(*x);
    }
    for x in &vb {
        b.push(*x);
    }
    (a, b, Model { a: va, b: vb })
}

fn run_program(p: &Program, init: Init, bound: usize, scripts: &Scripts) -> (ProgStats, Vec<Failure>, u64) {
    let mut failures: Vec<Failure> = vec![];
    let mut outcomes = std::collections::HashSet::new();
    let exec_no = std::cell::Cell::new(0u64);
    let mut add = |class: String, detail: Value, x: &Exec| {
        if let Some(f) = failures.iter_mut().find(|f| f.class == class) {
            if f.last_exec != exec_no.get() {
                f.count += 1;
                f.last_exec = exec_no.get();
            }
            if x.preemptions < f.preemptions
                || (x.preemptions == f.preemptions && x.choices.len() < f.schedule.len())
            {
                f.preemptions = x.preemptions;
                f.schedule = x.choices.clone();
                f.detail = detail;
            }
        } else {
            failures.push(Failure {
                class,
                detail,
                schedule: x.choices.clone(),
                preemptions: x.preemptions,
                count: 1,
                last_exec: exec_no.get(),
            });
        }
    };
    let stats = explore(
        bound,
        || {
            let (a, b, model) = init_lists(init);
            let calls = Arc::new(Mutex::new(Vec::<Call>::new()));
            let mut specs = vec![];
            let (a, b) = (Arc::new(a), Arc::new(b));
            for (tid, ops) in p.iter().enumerate() {
                let (a, b) = if init.by_ref { (a.clone(), b.clone()) } else { (Arc::new((*a).clone()), Arc::new((*b).clone())) };
                let ops = ops.clone();
                let calls = calls.clone();
                let s = scripts.clone();
                let unwind_ok = !ops.iter().any(|o| o.uses_script());
                specs.push(ThreadSpec {
                    unwind_ok,
                    body: Box::new(move || {
                        for op in ops {
                            let inv = now();
                            let res = real_apply(op, &a, &b, &s);
                            let ret = now();
                            calls.lock().unwrap().push(Call { tid, op, inv, ret, res });
                        }
                    }),
                });
            }
            (specs, (a, b, model, calls))
        },
        |x, (a, b, model, calls)| {
            exec_no.set(exec_no.get() + 1);
            let stale = x.alarms.iter().any(|a| matches!(a, Alarm::StalePointer { .. }));
            for al in &x.alarms {
                match al {
                    Alarm::StalePointer { site, .. } => {
                        add(format!("stale-pointer@{site}"), json!({"site": site}), x)
                    }
                    Alarm::Unguarded { site, .. } => {
                        add(format!("unguarded-read@{site}"), json!({"site": site}), x)
                    }
                    Alarm::BadBuffer { what } => add(format!("bad-buffer:{what}"), json!(what), x),
                }
            }
            for (tid, msg) in &x.panics {
                add("panic".into(), json!({"tid": tid, "msg": msg}), x);
            }
            if x.diverged {
                add("machinery:diverged".into(), json!(null), x);
            }
            if x.horizon_hit {
                add("machinery:horizon".into(), json!(null), x);
            }
            if let Some(d) = &x.deadlock {
                let mut sites: Vec<String> = d
                    .iter()
                    .map(|(_, p)| match p {
                        c00sched::Point::Lock { site, .. } => site.to_string(),
                        other => format!("{other:?}"),
                    })
                    .collect();
                sites.sort();
                add(format!("deadlock@{}", sites.join("+")), json!({"waiting": sites}), x);
                // lists may be locked by leaked/unwound threads: do not touch them
                std::mem::forget(a);
                std::mem::forget(b);
                outcomes.insert(vcore::util::fnv_str(&format!("deadlock{sites:?}")));
            } else if x.panics.is_empty() {
                let mut calls = calls.lock().unwrap().clone();
                for c in calls.iter_mut() {
                    if let Res::Pending(l) = &c.res {
                        c.res = Res::Vec(l.0.to_vec());
                    }
                }
                let fa = a.to_vec();
                let fb = b.to_vec();
                // a value read through a stale pointer is garbage: that execution
                // is already reported as stale-pointer, its history is not judged
                if !stale && !linearizable(&calls, &model, &fa, &fb) {
                    add(
                        "non-linearizable".into(),
                        json!({"calls": calls.iter().map(|c| format!("t{} {} -> {:?} [{}..{}]", c.tid, c.op.name(), c.res, c.inv, c.ret)).collect::<Vec<_>>(),
                               "final_a": fa, "final_b": fb}),
                        x,
                    );
                }
                let mut h = vcore::util::fnv_str(&format!("{fa:?}{fb:?}"));
                let mut cs: Vec<String> = calls.iter().map(|c| format!("{}{:?}{:?}", c.tid, c.op, c.res)).collect();
                cs.sort();
                h = vcore::util::mix(h, vcore::util::fnv_str(&cs.join(";")));
                outcomes.insert(h);
            }
            true
        },
    );
    let mut out_hash = 0u64;
    for o in &outcomes {
        out_hash ^= *o;
    }
    let _ = out_hash;
    (
        ProgStats { schedules: stats.schedules, points: stats.points },
        failures,
        outcomes.len() as u64,
    )
}

// ------------------------------------------------------------ the check

fn scheduled_units(cfg: &Cfg) -> usize {
    all_programs(cfg.tier).len().div_ceil(PER_UNIT)
}

fn free_iters(cfg: &Cfg) -> u64 {
    cfg.tier.pick(100_000, 1_000_000)
}

const FREE_ROUNDS: u64 = 3;

fn nested_units(cfg: &Cfg) -> usize {
    nested::programs(cfg.tier).len().div_ceil(PER_UNIT)
}

/// One unit of the nested family (nested.rs): lists of shared lists.
fn run_nested(unit: usize, cx: &mut Cx) {
    if !cx.case(SUB_SETUP) {
        return;
    }
    let rt = host::runtime();
    let mut pkg = match host::compile(&rt, nested::SCRIPT) {
        Ok(p) => p,
        Err(e) => {
            cx.violation("compile", SUB_SETUP, json!(nested::SCRIPT), json!("compiles"), json!(format!("{e:?}")));
            return;
        }
    };
    let scripts = nested::Scripts {
        q2: pkg.get_function("q2").expect("q2"),
        c2: pkg.get_function("c2").expect("c2"),
        i2: pkg.get_function("i2").expect("i2"),
        g2: pkg.get_function("g2").expect("g2"),
    };
    let progs = nested::programs(cx.cfg.tier);
    let b = nested::bound(cx.cfg.tier);
    let lo = unit * PER_UNIT;
    let hi = (lo + PER_UNIT).min(progs.len());
    for i in lo..hi {
        let sub = (i - lo) as u64;
        if !cx.case(sub) {
            continue;
        }
        let p = &progs[i];
        let mut schedules = 0;
        let mut points = 0;
        let mut n_out = 0;
        let mut failures = vec![];
        // both address orders of the two outer lists (the lock order of `==` depends on it)
        for o1_low in [true, false] {
            let (st, f1) = nested::run_program(p, o1_low, b, &scripts);
            schedules += st.schedules;
            points += st.points;
            n_out += st.outcomes;
            for mut f in f1 {
                f.detail = json!({"o1_has_lower_address": o1_low, "detail": f.detail});
                failures.push(f);
            }
        }
        cx.states(schedules);
        cx.transitions(points);
        cx.validated(schedules);
        cx.count("programs", 1);
        cx.count("nested_programs", 1);
        cx.count("nested_schedules", schedules);
        cx.count("distinct_interleaving_outcomes_sum", n_out);
        if n_out > 2 {
            cx.nontrivial(vcore::util::fnv_str(&format!("nested{p:?}")));
        }
        cx.outcome(vcore::util::mix(vcore::util::fnv_str(&format!("nested{p:?}")), n_out));
        if i == lo && unit % 16 == 0 {
            cx.sample(json!({"family": "nested", "program": nested::prog_json(p), "schedules": schedules,
                              "preemption_bound": b, "distinct_outcomes": n_out}));
        }
        for f in failures {
            cx.violation(
                f.class.clone(),
                sub,
                json!({"family": "nested: o1=[y1,x1,e,e] o2=[y2,x2,e,e], y1=y2=x1=e=[], x2=[7]",
                       "program": nested::prog_json(p), "ops": p.iter().flatten().map(|o| format!("{o:?}")).collect::<Vec<_>>(),
                       "schedule": f.schedule, "preemptions": f.preemptions,
                       "failing_executions": f.count, "of_schedules": schedules, "detail": f.detail}),
                json!("no stale/unguarded element pointer, no deadlock, linearizable history"),
                json!(f.class),
            );
        }
    }
    cx.request_restart();
}

/// One case of the supplementary free-running pass (free.rs), FREE_ROUNDS times.
fn run_free(i: usize, cx: &mut Cx) {
    if !cx.case(SUB_SETUP) {
        return;
    }
    roto::verif::set_sink(None);
    let rt = host::runtime();
    let mut pkg = match host::compile(&rt, free::SCRIPT) {
        Ok(p) => p,
        Err(e) => {
            cx.violation("compile", SUB_SETUP, json!(free::SCRIPT), json!("compiles"), json!(format!("{e:?}")));
            return;
        }
    };
    let scripts = std::sync::Arc::new(free::Scripts {
        gu: pkg.get_function("gu").expect("gu"),
        gs: pkg.get_function("gs").expect("gs"),
        cu: pkg.get_function("cu").expect("cu"),
        js: pkg.get_function("js").expect("js"),
    });
    let case = free::cases()[i];
    for round in 0..FREE_ROUNDS {
        if !cx.case(round) {
            continue;
        }
        match free::run(case, free_iters(&cx.cfg), &scripts) {
            Ok(n) => cx.count("free_running_operations", n),
            Err(e) => {
                // the observed part must not depend on the run (a replay compares it): which
                // operation saw the broken invariant; the values go into the case
                let stable: String = e.chars().take_while(|c| !"(=0123456789".contains(*c)).collect();
                cx.violation(
                    "free-running-invariant",
                    round,
                    json!({"pass": "free-running (not exhaustive: a replay re-runs the case and usually, not always, reproduces)",
                           "element_type": format!("{:?}", case.elem),
                           "threads": [case.writer.name(), case.writer.name(), case.other.name(), case.other.name()],
                           "ops": [format!("{:?}", case.writer), format!("{:?}", case.other)],
                           "message_of_this_run": e}),
                    json!("an invariant of every linearizable execution (swaps permute, pushes append)"),
                    json!(format!("invariant broken, seen by: {}", stable.trim())),
                );
                break;
            }
        }
    }
    cx.count("free_running_cases", 1);
    cx.request_restart();
}

struct C16;

impl Check for C16 {
    fn id(&self) -> &'static str {
        "C16"
    }
    fn units(&self, cfg: &Cfg) -> usize {
        scheduled_units(cfg) + nested_units(cfg) + free::cases().len() + 1
    }
    fn case_timeout_s(&self, cfg: &Cfg) -> f64 {
        cfg.tier.pick(120.0, 600.0)
    }
    fn preflight(&self, _cfg: &Cfg) -> Result<(), String> {
        c00sched::self_test()?;
        hook_lint()
    }
    fn run_unit(&self, unit: usize, cx: &mut Cx) {
        if unit == scheduled_units(&cx.cfg) + nested_units(&cx.cfg) + free::cases().len() {
            return cloned::run(cx);
        }
        if unit >= scheduled_units(&cx.cfg) + nested_units(&cx.cfg) {
            return run_free(unit - scheduled_units(&cx.cfg) - nested_units(&cx.cfg), cx);
        }
        if unit >= scheduled_units(&cx.cfg) {
            return run_nested(unit - scheduled_units(&cx.cfg), cx);
        }
        let progs = all_programs(cx.cfg.tier);
        let sh = shapes(cx.cfg.tier);
        if !cx.case(SUB_SETUP) {
            return;
        }
        let rt = host::runtime();
        let mut pkg = match host::compile(&rt, SCRIPT) {
            Ok(p) => p,
            Err(e) => {
                cx.violation("compile", SUB_SETUP, json!(SCRIPT), json!("compiles"), json!(format!("{e:?}")));
                return;
            }
        };
        let scripts = Scripts {
            get: pkg.get_function("g").expect("g"),
            eq: pkg.get_function("q").expect("q"),
            contains: pkg.get_function("c").expect("c"),
            index: pkg.get_function("ix").expect("ix"),
            push: pkg.get_function("p").expect("p"),
            swap: pkg.get_function("s").expect("s"),
            concat: pkg.get_function("cc").expect("cc"),
            len: pkg.get_function("n").expect("n"),
        };
        let lo = unit * PER_UNIT;
        let hi = (lo + PER_UNIT).min(progs.len());
        for i in lo..hi {
            let sub = (i - lo) as u64;
            if !cx.case(sub) {
                continue;
            }
            let (si, p) = &progs[i];
            let b = bound(cx.cfg.tier, &sh[*si]);
            let has_eq = p.iter().flatten().any(|o| {
                matches!(o, Op::ScriptEqAB | Op::ScriptEqBA | Op::RustEqAB | Op::RustEqBA)
            });
            let mut st = ProgStats::default();
            let mut failures = vec![];
            let mut n_out = 0;
            // the lock order of a comparison / concatenation depends on the
            // address order of the two lists: both orders are explored for
            // programs that lock both. Programs that touch `b` also run from
            // the second initial configuration (empty `b`).
            let touches_b = p.iter().flatten().any(|o| {
                matches!(o, Op::ConcatAB | Op::ConcatBA | Op::PushB | Op::ScriptEqAB | Op::ScriptEqBA | Op::RustEqAB | Op::RustEqBA | Op::ScriptConcatAB)
            });
            let locks_both = has_eq || p.iter().flatten().any(|o| matches!(o, Op::ConcatAB | Op::ConcatBA | Op::ScriptConcatAB));
            let mut inits = vec![Init { a_low: true, config: 0, by_ref: false }];
            if locks_both {
                inits.push(Init { a_low: false, config: 0, by_ref: false });
            }
            if touches_b {
                inits.push(Init { a_low: true, config: 1, by_ref: false });
            }
            // typed Rust operations that hand out or walk elements, on ONE shared handle
            if p.iter().flatten().any(|o| matches!(o, Op::GetA0 | Op::GetA3 | Op::ToVecA | Op::ContainsA2 | Op::IndexA2 | Op::RustEqAA)) {
                inits.push(Init { a_low: true, config: 0, by_ref: true });
            }
            for init in inits {
                let (s1, f1, n1) = run_program(p, init, b, &scripts);
                st.schedules += s1.schedules;
                st.points += s1.points;
                n_out += n1;
                for mut f in f1 {
                    f.detail = json!({"a_has_lower_address": init.a_low, "threads_share_one_handle_by_reference": init.by_ref, "initial": if init.config == 0 { "a=[1,2,3,4] b=[5]" } else { "a=[7] b=[]" }, "detail": f.detail});
                    failures.push(f);
                }
            }
            cx.states(st.schedules);
            cx.transitions(st.points);
            cx.validated(st.schedules);
            cx.count("programs", 1);
            cx.count("distinct_interleaving_outcomes_sum", n_out);
            if n_out > 1 {
                // non-trivial: the interleaving changes what the program observes
                cx.nontrivial(vcore::util::fnv_str(&format!("{p:?}")));
            }
            cx.outcome(vcore::util::mix(vcore::util::fnv_str(&format!("{p:?}")), n_out));
            if i == lo {
                cx.sample(json!({"program": prog_json(p), "schedules": st.schedules,
                                  "preemption_bound": if b == usize::MAX { json!("unbounded") } else { json!(b) },
                                  "distinct_outcomes": n_out}));
            }
            for f in failures {
                let class = f.class.clone();
                cx.violation(
                    class,
                    sub,
                    json!({"program": prog_json(p), "ops": p.iter().flatten().map(|o| format!("{o:?}")).collect::<Vec<_>>(),
                           "schedule": f.schedule, "preemptions": f.preemptions,
                           "failing_executions": f.count, "of_schedules": st.schedules, "detail": f.detail}),
                    json!("no stale/unguarded element pointer, no deadlock, linearizable history"),
                    json!(f.class),
                );
            }
        }
        // executions leak parked threads when a deadlock involves a thread with
        // compiled code on its stack: start the next unit in a fresh process
        cx.request_restart();
    }
    fn describe(&self, cfg: &Cfg, unit: usize, sub: u64) -> Value {
        if unit == scheduled_units(cfg) + nested_units(cfg) + free::cases().len() {
            return cloned::describe(sub);
        }
        if unit >= scheduled_units(cfg) && unit < scheduled_units(cfg) + nested_units(cfg) {
            if sub == SUB_SETUP {
                return json!({"setup": nested::SCRIPT});
            }
            let progs = nested::programs(cfg.tier);
            let i = (unit - scheduled_units(cfg)) * PER_UNIT + sub as usize;
            return json!({"family": "nested", "program": progs.get(i).map(nested::prog_json)});
        }
        if unit >= scheduled_units(cfg) {
            let c = free::cases()[unit - scheduled_units(cfg) - nested_units(cfg)];
            return json!({"pass": "free-running (not exhaustive)", "element_type": format!("{:?}", c.elem),
                          "threads": [c.writer.name(), c.writer.name(), c.other.name(), c.other.name()],
                          "ops": [format!("{:?}", c.writer), format!("{:?}", c.other)],
                          "iterations_per_thread": free_iters(cfg), "round": sub});
        }
        if sub == SUB_SETUP {
            return json!({"setup": SCRIPT});
        }
        let progs = all_programs(cfg.tier);
        let i = unit * PER_UNIT + sub as usize;
        json!({"program": progs.get(i).map(|p| prog_json(&p.1))})
    }
    fn matches(&self, f: &Finding, v: &Violation) -> bool {
        let ops: Vec<&str> = v.case["ops"]
            .as_array()
            .map(|a| a.iter().filter_map(|x| x.as_str()).collect())
            .unwrap_or_default();
        let has = |names: &[&str]| ops.iter().any(|o| names.contains(o));
        match f.matcher.as_str() {
            // class must be exactly the listed one and the program must contain
            // the listed operation(s)
            "class_with_ops" => {
                let class_ok = f.params["class"].as_str() == Some(v.class.as_str());
                let need: Vec<&str> = f.params["ops_any"]
                    .as_array()
                    .map(|a| a.iter().filter_map(|x| x.as_str()).collect())
                    .unwrap_or_default();
                let need_all: Vec<&str> = f.params["ops_all"]
                    .as_array()
                    .map(|a| a.iter().filter_map(|x| x.as_str()).collect())
                    .unwrap_or_default();
                let need2: Vec<&str> = f.params["ops_any2"]
                    .as_array()
                    .map(|a| a.iter().filter_map(|x| x.as_str()).collect())
                    .unwrap_or_default();
                class_ok
                    && (need.is_empty() || has(&need))
                    && (need2.is_empty() || has(&need2))
                    && need_all.iter().all(|n| ops.contains(n))
            }
            _ => false,
        }
    }
    fn meta(&self, cfg: &Cfg) -> Meta {
        let sh = shapes(cfg.tier);
        Meta {
            rule: "DECIDING PART: all programs of the stated shapes over the operation menu (threads are symmetric: one representative per renaming), each under ALL schedules up to the preemption bound at lock-acquisition / element-pointer-use granularity; a program is non-trivial when different schedules give different observations (results or final contents). SUPPLEMENTARY PART (sampling, NOT exhaustive, never counted in states/transitions): a free-running pass on 4 unscheduled OS threads per (writer operation, other operation, element type) case, checked against invariants of every linearizable execution — it exists for the one class the scheduler cannot interleave, two threads wrongly admitted into the same critical section".into(),
            assumptions: vec![
                "schedule points exist where hook lines are; the hook-coverage lint fails the check when a `.lock()` in list.rs has no hook line before it".into(),
                "sequentially consistent memory (one thread runs at a time); Arc reference counting is std's and trusted".into(),
            ],
            bounds: json!({
                "shapes": sh.iter().map(|s| json!({"threads": s.threads, "ops_per_thread": s.ops, "family": if s.script_family { "script-side entry points" } else { "main" },
                    "menu": menu(cfg.tier, s).iter().map(|o| o.name()).collect::<Vec<_>>(),
                    "preemption_bound": if bound(cfg.tier, s) == usize::MAX { json!("unbounded") } else { json!(bound(cfg.tier, s)) }})).collect::<Vec<_>>(),
                "initial": [{"a": [1,2,3,4], "a_capacity": 4, "b": [5]}, {"a": [7], "b": []}],
                "nested_family": {"lists": "o1=[y1,x1,e,e] o2=[y2,x2,e,e] (List<List<u64>>, outer buffers full), y1=y2=x1=e=[], x2=[7]; inner address order fixed, both address orders of o1/o2",
                                  "threads": 2, "ops_per_thread": 2, "programs": nested::programs(cfg.tier).len(),
                                  "menu": nested::menu(cfg.tier).iter().map(|o| o.name()).collect::<Vec<_>>(),
                                  "preemption_bound": nested::bound(cfg.tier),
                                  "oracle": "strong linearizability (every call atomic) w.r.t. the model of five shared inner vectors and two outer vectors of handles; a history explained only by per-pair reads inside one deep read is class non-linearizable:deep-read-torn"},
                "free_running_pass": {"exhaustive": false, "cases": free::cases().len(), "threads": 4,
                                      "iterations_per_thread": free_iters(cfg), "rounds": FREE_ROUNDS},
            }),
            states_are: "complete schedules explored (the free-running pass adds none)".into(),
            transitions_are: "schedule points passed".into(),
        }
    }
}

/// Every `.lock()` in list.rs (outside tests) must be directly preceded by a
/// hook line, otherwise interleavings at that site would silently not be explored.
fn hook_lint() -> Result<(), String> {
    let src = std::fs::read_to_string("/repo/src/value/list.rs")
        .or_else(|_| {
            std::env::var("VERIF_REPO").map_err(|e| e.to_string()).and_then(|r| {
                std::fs::read_to_string(format!("{r}/src/value/list.rs")).map_err(|e| e.to_string())
            })
        })
        .map_err(|e| format!("cannot read list.rs: {e}"))?;
    let src = match std::env::var("VERIF_REPO") {
        Ok(r) => std::fs::read_to_string(format!("{r}/src/value/list.rs")).unwrap_or(src),
        Err(_) => src,
    };
    let lines: Vec<&str> = src.lines().collect();
    let mut unhooked = vec![];
    for (i, l) in lines.iter().enumerate() {
        if l.contains("#[cfg(test)]") {
            break;
        }
        let t = l.trim();
        if t.starts_with("//") {
            continue;
        }
        if t.contains(".lock()") && !t.contains("try_lock") {
            let prev = if i > 0 { lines[i - 1].trim() } else { "" };
            if !prev.starts_with("crate::verif::list_lock(") {
                unhooked.push(i + 1);
            }
        }
    }
    // every raw slice over the element buffer must report its use
    let mut unhooked_slices = vec![];
    for (i, l) in lines.iter().enumerate() {
        if l.contains("#[cfg(test)]") {
            break;
        }
        let t = l.trim();
        if t.starts_with("//") || !t.contains("from_raw_parts") {
            continue;
        }
        let hooked_after = |k: usize| lines[k..(k + 25).min(lines.len())].iter().any(|x| x.contains("crate::verif::slice_use("));
        if hooked_after(i) {
            continue;
        }
        // the slice may be made by a helper function: then every call site of
        // that helper must report the use of the slice it gets
        let helper = lines[..i].iter().rev().find_map(|x| {
            let x = x.trim_start();
            let x = x.strip_prefix("pub ").unwrap_or(x);
            let x = x.strip_prefix("pub(crate) ").unwrap_or(x);
            let x = x.strip_prefix("unsafe ").unwrap_or(x);
            x.strip_prefix("fn ").map(|r| r.chars().take_while(|c| c.is_alphanumeric() || *c == '_').collect::<String>())
        });
        let mut ok = false;
        if let Some(h) = helper.filter(|h| !h.is_empty()) {
            let call = format!("{h}(");
            let def = format!("fn {h}");
            let sites: Vec<usize> = lines
                .iter()
                .enumerate()
                .take_while(|(_, x)| !x.contains("#[cfg(test)]"))
                .filter(|(_, x)| x.contains(&call) && !x.contains(&def) && !x.trim().starts_with("//"))
                .map(|(k, _)| k)
                .collect();
            ok = !sites.is_empty() && sites.iter().all(|k| hooked_after(*k));
        }
        if !ok {
            unhooked_slices.push(i + 1);
        }
    }
    if !unhooked_slices.is_empty() {
        return Err(format!(
            "raw slice(s) over the list buffer without a use hook in src/value/list.rs at line(s) {unhooked_slices:?}: hooks must be extended"
        ));
    }
    if unhooked.is_empty() {
        Ok(())
    } else {
        Err(format!(
            "unhooked lock site(s) in src/value/list.rs at line(s) {unhooked:?}: hooks must be extended"
        ))
    }
}

fn main() {
    let _ = Val(0u8);
    vcore::main(&C16)
}
