//! Triage tool: `c00probe <file.roto> [fn-name [i32 args...]]` compiles a script with the
//! harness runtime and optionally calls an `fn(i32,..) -> i32` / `fn() -> i32` function.
fn main() {
    let args: Vec<String> = std::env::args().collect();
    let src = std::fs::read_to_string(&args[1]).expect("read");
    let rt = host::runtime();
    match host::compile(&rt, &src) {
        Err(e) => println!("COMPILE: {e:?}"),
        Ok(mut pkg) => {
            println!("COMPILE: ok");
            if args.len() > 2 {
                let name = &args[2];
                let a: Vec<i32> = args[3..].iter().map(|x| x.parse().unwrap()).collect();
                host::clear_log();
                let r = match a.len() {
                    0 => pkg.get_function::<fn() -> i32>(name).map(|f| f.call()).map_err(|e| e.to_string()),
                    1 => pkg.get_function::<fn(i32) -> i32>(name).map(|f| f.call(a[0])).map_err(|e| e.to_string()),
                    _ => pkg.get_function::<fn(i32, i32) -> i32>(name).map(|f| f.call(a[0], a[1])).map_err(|e| e.to_string()),
                };
                println!("RESULT: {r:?}\nLOG: {:?}\nLEDGER: {:?}", host::take_log(), host::ledger_snapshot());
            }
        }
    }
}
