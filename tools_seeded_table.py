#!/usr/bin/env python3
"""Print the markdown table of /verif/seeded/* for DESIGN.md section 15."""
import json, glob, os
notes = json.load(open('/verif/seeded/notes.json'))
print("| id | change (as described by its author) | needs | first verdict | verdict now |")
print("|---|---|---|---|---|")
for d in sorted(glob.glob('/verif/seeded/C*-*')):
    i = os.path.basename(d)
    m = json.load(open(d + '/meta.json'))
    c = m['confirmed_by_coordinator']
    rcs = c['check_exit_codes']
    caught = [k.replace('check_', '').replace('_rc', '') for k, v in rcs.items() if v == '1']
    now = ("caught by " + ", ".join(caught)) if caught else "MISSED"
    n = notes.get(i, {})
    def cell(x): return str(x).replace('|', '\\|').replace('\n', ' ')[:330]
    print(f"| {i} | {cell(n.get('change') or m['what_it_breaks'])} | {cell(n.get('needs') or m['needs_to_manifest'])} | {cell(n.get('first', 'caught'))} | {now} |")
